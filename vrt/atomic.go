package vrt

import (
	"sync/atomic"
	"unsafe"
)

// Atomic operations go to the real sync/atomic (so ThreadSanitizer sees them as atomics) after a
// scheduling point — unless the address lies in a range registered as quiet: write-only statistics
// on which no library branch depends (DefaultSnmp), see DESIGN.md 3.2.

type addrRange struct{ lo, hi uintptr }

var quiet []addrRange

// Quiet registers [p, p+size) as statistics-only memory: atomics on it are not scheduling points.
//
//go:norace
func Quiet(p unsafe.Pointer, size uintptr) {
	lo := uintptr(p)
	for _, q := range quiet {
		if q.lo == lo {
			return
		}
	}
	quiet = append(quiet, addrRange{lo, lo + size})
}

// AtomicPoint is the scheduling point in front of an atomic operation on address p.
//
//go:norace
func AtomicPoint(p unsafe.Pointer, label string) {
	r := rt
	if r == nil || r.aborting {
		return
	}
	a := uintptr(p)
	for _, q := range quiet {
		if a >= q.lo && a < q.hi {
			return
		}
	}
	r.point(label)
	r.event(r.addrHash(a), 0xa0)
}

// Value is the drop-in for atomic.Value.
type Value struct{ v atomic.Value }

//go:norace
func (v *Value) Load() any {
	AtomicPoint(unsafe.Pointer(v), "Value.Load")
	return v.v.Load()
}

//go:norace
func (v *Value) Store(x any) {
	AtomicPoint(unsafe.Pointer(v), "Value.Store")
	v.v.Store(x)
}

//go:norace
func (v *Value) Swap(x any) any {
	AtomicPoint(unsafe.Pointer(v), "Value.Swap")
	return v.v.Swap(x)
}

//go:norace
func (v *Value) CompareAndSwap(old, new any) bool {
	AtomicPoint(unsafe.Pointer(v), "Value.CAS")
	return v.v.CompareAndSwap(old, new)
}
