// Package vtime is the drop-in for "time" in the transformed kcp-go sources: value types and pure
// functions are the real ones; everything that reads the clock or waits goes to the virtual runtime.
package vtime

import (
	"time"

	"verif/vrt"
)

type (
	Time       = time.Time
	Duration   = time.Duration
	Month      = time.Month
	Weekday    = time.Weekday
	Location   = time.Location
	ParseError = time.ParseError
	Timer      = vrt.ChanTimer
	Ticker     = vrt.Ticker
)

const (
	Nanosecond  = time.Nanosecond
	Microsecond = time.Microsecond
	Millisecond = time.Millisecond
	Second      = time.Second
	Minute      = time.Minute
	Hour        = time.Hour

	Layout      = time.Layout
	ANSIC       = time.ANSIC
	UnixDate    = time.UnixDate
	RFC822      = time.RFC822
	RFC1123     = time.RFC1123
	RFC3339     = time.RFC3339
	RFC3339Nano = time.RFC3339Nano
	Kitchen     = time.Kitchen
	Stamp       = time.Stamp
	StampMilli  = time.StampMilli
	StampMicro  = time.StampMicro
	StampNano   = time.StampNano
	DateTime    = time.DateTime
	DateOnly    = time.DateOnly
	TimeOnly    = time.TimeOnly

	January   = time.January
	February  = time.February
	March     = time.March
	April     = time.April
	May       = time.May
	June      = time.June
	July      = time.July
	August    = time.August
	September = time.September
	October   = time.October
	November  = time.November
	December  = time.December

	Sunday    = time.Sunday
	Monday    = time.Monday
	Tuesday   = time.Tuesday
	Wednesday = time.Wednesday
	Thursday  = time.Thursday
	Friday    = time.Friday
	Saturday  = time.Saturday
)

var (
	UTC   = time.UTC
	Local = time.Local
)

func Now() Time                  { return vrt.Now() }
func Since(t Time) Duration      { return vrt.Now().Sub(t) }
func Until(t Time) Duration      { return t.Sub(vrt.Now()) }
func Sleep(d Duration)           { vrt.Sleep(d) }
func NewTimer(d Duration) *Timer { return vrt.NewTimer(d) }
func AfterFunc(d Duration, f func()) *Timer {
	return vrt.AfterFunc(d, f)
}
func After(d Duration) *vrt.Chan[Time] { return vrt.NewTimer(d).C }
func NewTicker(d Duration) *Ticker     { return vrt.NewTicker(d) }
func Tick(d Duration) *vrt.Chan[Time] {
	if d <= 0 {
		return nil
	}
	return vrt.NewTicker(d).C
}

func Date(year int, month Month, day, hour, min, sec, nsec int, loc *Location) Time {
	return time.Date(year, month, day, hour, min, sec, nsec, loc)
}
func Unix(sec, nsec int64) Time                   { return time.Unix(sec, nsec) }
func UnixMilli(ms int64) Time                     { return time.UnixMilli(ms) }
func UnixMicro(us int64) Time                     { return time.UnixMicro(us) }
func Parse(layout, value string) (Time, error)    { return time.Parse(layout, value) }
func ParseDuration(s string) (Duration, error)    { return time.ParseDuration(s) }
func FixedZone(name string, offset int) *Location { return time.FixedZone(name, offset) }
func LoadLocation(name string) (*Location, error) { return time.LoadLocation(name) }
func ParseInLocation(layout, value string, loc *Location) (Time, error) {
	return time.ParseInLocation(layout, value, loc)
}
