package vrt

// Happens-before fingerprints (state caching as in CHESS): every thread and every synchronisation
// object carries a hash that chains all events in its causal past. Operations on one object are
// chained in the order they happen (conservatively treating all of them as conflicting); a thread
// woken by another thread's operation absorbs that operation's hash; a clock advance is a barrier
// absorbed by every thread. Two execution prefixes with equal fingerprints have the same happens-
// before graph, hence — for data-race-free code whose threads are deterministic — the same state.
// The explorer prunes an execution when it reaches a (fingerprint, running thread) pair already
// visited with at most the same deviation cost.

// H is a 128-bit fingerprint.
type H struct{ A, B uint64 }

//go:norace
func mix(x, y H, c uint64) H {
	a := (x.A ^ (y.A + 0x9e3779b97f4a7c15 + c)) * 0xff51afd7ed558ccd
	a ^= a >> 32
	a *= 0xc4ceb9fe1a85ec53
	b := (x.B + (y.B ^ 0xc2b2ae3d27d4eb4f) + c*0x165667b19e3779f9) * 0xd6e8feb86659fd93
	b ^= b >> 29
	b *= 0x9fb21c651e98df25
	return H{a ^ (a >> 31), b ^ (b >> 32)}
}

// Pruner is implemented by choosers that cache visited states.
type Pruner interface {
	// Visit is called before a thread-choice point with the state key; false prunes the execution.
	Visit(key H) bool
}

// event chains an operation of the running thread on object hash o.
//
//go:norace
func (r *Runtime) event(o *H, code uint64) {
	t := r.cur
	nh := mix(t.h, *o, code)
	t.h = nh
	*o = nh
}

// absorb makes thread w (woken or completed by the running thread's operation) depend on hash h.
//
//go:norace
func absorb(w *Thread, h H) { w.h = mix(w.h, h, 0x77) }

// Event is a happens-before event on a harness-level shared object: harness code that shares plain
// variables between threads calls it (with a per-object H) around each access so that state caching
// distinguishes the access orders.
//
//go:norace
func Event(o *H) {
	r := rt
	if r == nil || r.aborting {
		return
	}
	r.event(o, 0x99)
}

//go:norace
func (r *Runtime) addrHash(p uintptr) *H {
	if h, ok := r.addrH.get(p); ok {
		return h
	}
	h := &H{}
	r.addrH.put(p, h)
	return h
}

// barrier is absorbed by every thread when the clock advances.
//
//go:norace
func (r *Runtime) barrier() {
	b := H{uint64(r.now), 0xb}
	for _, t := range r.threads {
		if t.state != tDone {
			t.h = mix(t.h, b, 0xbb)
		}
	}
}

//go:norace
func (r *Runtime) stateKey(curRunnable bool) H {
	k := H{uint64(r.now), uint64(r.idleDl)}
	var sum H
	for _, t := range r.threads {
		th := mix(t.h, H{uint64(t.state), 0}, 7)
		sum.A += th.A
		sum.B += th.B
	}
	k = mix(k, sum, 1)
	c := uint64(2)
	if curRunnable {
		c = 3
	}
	k = mix(k, r.cur.h, c)
	if r.cfg.SwitchCost != 0 {
		for _, t := range r.runq {
			k = mix(k, t.h, 4)
		}
	}
	return k
}
