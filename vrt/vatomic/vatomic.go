// Package vatomic is the drop-in for "sync/atomic" in the transformed kcp-go sources: each operation
// is a scheduling point (unless on registered statistics memory) followed by the real atomic.
package vatomic

import (
	"sync/atomic"
	"unsafe"

	"verif/vrt"
)

type Value = vrt.Value

func pt[T any](p *T, l string) { vrt.AtomicPoint(unsafe.Pointer(p), l) }

func AddInt32(a *int32, d int32) int32         { pt(a, "atomic.Add"); return atomic.AddInt32(a, d) }
func AddInt64(a *int64, d int64) int64         { pt(a, "atomic.Add"); return atomic.AddInt64(a, d) }
func AddUint32(a *uint32, d uint32) uint32     { pt(a, "atomic.Add"); return atomic.AddUint32(a, d) }
func AddUint64(a *uint64, d uint64) uint64     { pt(a, "atomic.Add"); return atomic.AddUint64(a, d) }
func AddUintptr(a *uintptr, d uintptr) uintptr { pt(a, "atomic.Add"); return atomic.AddUintptr(a, d) }
func LoadInt32(a *int32) int32                 { pt(a, "atomic.Load"); return atomic.LoadInt32(a) }
func LoadInt64(a *int64) int64                 { pt(a, "atomic.Load"); return atomic.LoadInt64(a) }
func LoadUint32(a *uint32) uint32              { pt(a, "atomic.Load"); return atomic.LoadUint32(a) }
func LoadUint64(a *uint64) uint64              { pt(a, "atomic.Load"); return atomic.LoadUint64(a) }
func LoadUintptr(a *uintptr) uintptr           { pt(a, "atomic.Load"); return atomic.LoadUintptr(a) }
func LoadPointer(a *unsafe.Pointer) unsafe.Pointer {
	pt(a, "atomic.Load")
	return atomic.LoadPointer(a)
}
func StoreInt32(a *int32, v int32)       { pt(a, "atomic.Store"); atomic.StoreInt32(a, v) }
func StoreInt64(a *int64, v int64)       { pt(a, "atomic.Store"); atomic.StoreInt64(a, v) }
func StoreUint32(a *uint32, v uint32)    { pt(a, "atomic.Store"); atomic.StoreUint32(a, v) }
func StoreUint64(a *uint64, v uint64)    { pt(a, "atomic.Store"); atomic.StoreUint64(a, v) }
func StoreUintptr(a *uintptr, v uintptr) { pt(a, "atomic.Store"); atomic.StoreUintptr(a, v) }
func StorePointer(a *unsafe.Pointer, v unsafe.Pointer) {
	pt(a, "atomic.Store")
	atomic.StorePointer(a, v)
}
func SwapInt32(a *int32, v int32) int32     { pt(a, "atomic.Swap"); return atomic.SwapInt32(a, v) }
func SwapInt64(a *int64, v int64) int64     { pt(a, "atomic.Swap"); return atomic.SwapInt64(a, v) }
func SwapUint32(a *uint32, v uint32) uint32 { pt(a, "atomic.Swap"); return atomic.SwapUint32(a, v) }
func SwapUint64(a *uint64, v uint64) uint64 { pt(a, "atomic.Swap"); return atomic.SwapUint64(a, v) }
func CompareAndSwapInt32(a *int32, o, n int32) bool {
	pt(a, "atomic.CAS")
	return atomic.CompareAndSwapInt32(a, o, n)
}
func CompareAndSwapInt64(a *int64, o, n int64) bool {
	pt(a, "atomic.CAS")
	return atomic.CompareAndSwapInt64(a, o, n)
}
func CompareAndSwapUint32(a *uint32, o, n uint32) bool {
	pt(a, "atomic.CAS")
	return atomic.CompareAndSwapUint32(a, o, n)
}
func CompareAndSwapUint64(a *uint64, o, n uint64) bool {
	pt(a, "atomic.CAS")
	return atomic.CompareAndSwapUint64(a, o, n)
}
func CompareAndSwapPointer(a *unsafe.Pointer, o, n unsafe.Pointer) bool {
	pt(a, "atomic.CAS")
	return atomic.CompareAndSwapPointer(a, o, n)
}

// Typed atomics.

type Bool struct{ v atomic.Bool }

func (x *Bool) Load() bool       { pt(x, "Bool.Load"); return x.v.Load() }
func (x *Bool) Store(v bool)     { pt(x, "Bool.Store"); x.v.Store(v) }
func (x *Bool) Swap(v bool) bool { pt(x, "Bool.Swap"); return x.v.Swap(v) }
func (x *Bool) CompareAndSwap(o, n bool) bool {
	pt(x, "Bool.CAS")
	return x.v.CompareAndSwap(o, n)
}

type Int32 struct{ v atomic.Int32 }

func (x *Int32) Load() int32        { pt(x, "Int32.Load"); return x.v.Load() }
func (x *Int32) Store(v int32)      { pt(x, "Int32.Store"); x.v.Store(v) }
func (x *Int32) Swap(v int32) int32 { pt(x, "Int32.Swap"); return x.v.Swap(v) }
func (x *Int32) Add(d int32) int32  { pt(x, "Int32.Add"); return x.v.Add(d) }
func (x *Int32) CompareAndSwap(o, n int32) bool {
	pt(x, "Int32.CAS")
	return x.v.CompareAndSwap(o, n)
}

type Int64 struct{ v atomic.Int64 }

func (x *Int64) Load() int64        { pt(x, "Int64.Load"); return x.v.Load() }
func (x *Int64) Store(v int64)      { pt(x, "Int64.Store"); x.v.Store(v) }
func (x *Int64) Swap(v int64) int64 { pt(x, "Int64.Swap"); return x.v.Swap(v) }
func (x *Int64) Add(d int64) int64  { pt(x, "Int64.Add"); return x.v.Add(d) }
func (x *Int64) CompareAndSwap(o, n int64) bool {
	pt(x, "Int64.CAS")
	return x.v.CompareAndSwap(o, n)
}

type Uint32 struct{ v atomic.Uint32 }

func (x *Uint32) Load() uint32         { pt(x, "Uint32.Load"); return x.v.Load() }
func (x *Uint32) Store(v uint32)       { pt(x, "Uint32.Store"); x.v.Store(v) }
func (x *Uint32) Swap(v uint32) uint32 { pt(x, "Uint32.Swap"); return x.v.Swap(v) }
func (x *Uint32) Add(d uint32) uint32  { pt(x, "Uint32.Add"); return x.v.Add(d) }
func (x *Uint32) CompareAndSwap(o, n uint32) bool {
	pt(x, "Uint32.CAS")
	return x.v.CompareAndSwap(o, n)
}

type Uint64 struct{ v atomic.Uint64 }

func (x *Uint64) Load() uint64         { pt(x, "Uint64.Load"); return x.v.Load() }
func (x *Uint64) Store(v uint64)       { pt(x, "Uint64.Store"); x.v.Store(v) }
func (x *Uint64) Swap(v uint64) uint64 { pt(x, "Uint64.Swap"); return x.v.Swap(v) }
func (x *Uint64) Add(d uint64) uint64  { pt(x, "Uint64.Add"); return x.v.Add(d) }
func (x *Uint64) CompareAndSwap(o, n uint64) bool {
	pt(x, "Uint64.CAS")
	return x.v.CompareAndSwap(o, n)
}

type Pointer[T any] struct{ v atomic.Pointer[T] }

func (x *Pointer[T]) Load() *T     { pt(x, "Pointer.Load"); return x.v.Load() }
func (x *Pointer[T]) Store(v *T)   { pt(x, "Pointer.Store"); x.v.Store(v) }
func (x *Pointer[T]) Swap(v *T) *T { pt(x, "Pointer.Swap"); return x.v.Swap(v) }
func (x *Pointer[T]) CompareAndSwap(o, n *T) bool {
	pt(x, "Pointer.CAS")
	return x.v.CompareAndSwap(o, n)
}
