// Package vrt is a cooperative, single-token virtual runtime on which the transformed kcp-go sources
// run: every goroutine, channel, select, mutex, atomic.Value, timer and clock read goes through it, and
// every decision the Go runtime would take nondeterministically is delegated to a Chooser (the explorer).
//
// Exactly one Thread holds the token at any time.  A scheduling point precedes every synchronisation
// operation that is not a pure left-mover (Mutex.Unlock / RWMutex.(R)Unlock and Pool operations are not
// points, see DESIGN.md 3.2); plain memory accesses between two points execute atomically, which is sound
// for data-race-free programs (race freedom itself is property C14 and is checked in HB-race mode).
package vrt

import (
	"fmt"
	"runtime"
	"runtime/debug"
	"strings"
	"time"
)

// Kind classifies a choice point.
type Kind uint8

const (
	KThread Kind = iota // which thread runs next (last alternative may be "fire next timer early")
	KSelect             // which of several ready select cases
	KEnv                // harness/environment choice
)

//go:norace
func (k Kind) String() string { return [...]string{"T", "S", "E"}[k] }

// Chooser takes every nondeterministic decision. costs[i] is the deviation cost of alternative i
// (nil = all free); alternative 0 is always the default and free.
type Chooser interface {
	Choose(kind Kind, n int, costs []int8, label string) int
}

// Config of one execution.
type Config struct {
	Chooser        Chooser
	PreemptCost    int8          // switching away from a running thread that could continue
	SwitchCost     int8          // non-default pick when the running thread cannot continue (0 = CHESS, 1 = delay bounding)
	SelectCost     int8          // picking a ready select case other than the first in source order
	TimerEarlyCost int8          // firing the next timer although threads are runnable; <0 disables
	LurkCost       int8          // releasing a lurking thread (vrt.Lurk) before its time is up; 0 = 1
	EarlyWindow    time.Duration // only timers due within this window may fire early (0 = no limit)
	AsyncTimerChan bool          // true: pre-Go-1.23 timer channels (asynctimerchan=1)
	MaxSteps       int           // scheduling-point cap (livelock guard); 0 = 1e6
	Horizon        time.Duration // virtual-time cap; 0 = 1h
	Trace          bool          // record a human-readable trace
	UnlockPoints   bool          // also a scheduling point AFTER every Mutex.Unlock: exposes code that touches guarded data after releasing the lock (not needed for data-race-free code: Unlock is a left-mover)
}

// Status of a finished execution.
type Status int

const (
	Done      Status = iota // main thread returned
	Quiescent               // nothing runnable, no timer before the horizon, main not finished
	StepCap                 // MaxSteps exceeded
	Failed                  // Fail() was called
	Panicked                // a thread panicked
	Pruned                  // the explorer had already visited this state (state caching)
)

//go:norace
func (s Status) String() string {
	return [...]string{"done", "quiescent", "stepcap", "failed", "panicked", "pruned"}[s]
}

// ThreadInfo is a snapshot of one thread.
type ThreadInfo struct {
	ID      int
	Name    string
	State   string // runnable | blocked | done
	Blocked string // what it is blocked on
	Daemon  bool
}

// Outcome of an execution.
type Outcome struct {
	Status      Status
	Fail        string // Fail message or panic value
	Stack       string // panic stack
	Steps       int
	Points      int // choice points handed to the chooser with n>1
	Now         time.Duration
	Threads     []ThreadInfo
	ArmedTimers int
	Trace       []string
}

type tstate uint8

const (
	tRunnable tstate = iota
	tBlocked
	tDone
)

// Thread is a virtual thread (a parked real goroutine).
type Thread struct {
	id      int
	name    string
	state   tstate
	blocked string
	wake    chan struct{}
	exited  chan struct{}
	daemon  bool
	inRunq  bool
	h       H
	spawned uint64
	lurk    *rtimer // non-nil while the thread lurks (Lurk): the explorer may release it at any scheduling point
}

//go:norace
func (t *Thread) ID() int { return t.id }

//go:norace
func (t *Thread) Name() string { return t.name }

// Runtime is the state of one execution.
type Runtime struct {
	cfg        Config
	epoch      uint64
	threads    []*Thread
	cur        *Thread
	main       *Thread
	runq       []*Thread
	now        int64
	timers     []*rtimer
	timerSeq   uint64
	steps      int
	points     int
	aborting   bool
	ended      bool
	status     Status
	fail       string
	stack      string
	finished   chan struct{}
	idle       *Thread
	idleDl     int64
	enBuf      []*Thread
	costBuf    []int8
	trace      []string
	daemonSp   bool // threads spawned now are daemons (library threads)
	earlyFires int
	addrH      ptab[*H]
	pruner     Pruner
	onEnd      []func()
}

var (
	rt        *Runtime
	epochCtr  uint64
	seqNow    int64 // virtual clock outside executions
	DroppedGo int   // go statements executed outside an execution (package init)
)

// Active reports whether an execution is in progress (and not being torn down).
//
//go:norace
func Active() bool { return rt != nil && !rt.aborting }

// Epoch identifies the current execution (0 outside).
//
//go:norace
func Epoch() uint64 {
	if rt == nil {
		return 0
	}
	return rt.epoch
}

// NowNS returns virtual nanoseconds since the virtual epoch.
//
//go:norace
func NowNS() int64 {
	if rt == nil {
		return seqNow
	}
	return rt.now
}

// Run executes main as thread 0 and returns when the execution has ended and every goroutine it
// started has been unwound.
//
//go:norace
func Run(cfg Config, main func()) *Outcome {
	if rt != nil {
		panic("vrt: nested Run")
	}
	if cfg.MaxSteps == 0 {
		cfg.MaxSteps = 1000000
	}
	if cfg.Horizon == 0 {
		cfg.Horizon = time.Hour
	}
	epochCtr++
	r := &Runtime{cfg: cfg, epoch: epochCtr, finished: make(chan struct{}, 1)}
	if !RaceEnabled { // the explorer's state cache is a Go map: not usable from several goroutines under TSan
		r.pruner, _ = cfg.Chooser.(Pruner)
	}
	rt = r
	execBegin()
	t := r.spawn("main", main)
	r.main = t
	r.dequeue(t)
	r.cur = t
	handoff(t)
	raceDisable()
	<-r.finished
	raceEnable()
	// snapshot before teardown
	out := &Outcome{Status: r.status, Fail: r.fail, Stack: r.stack, Steps: r.steps, Points: r.points,
		Now: time.Duration(r.now), Trace: r.trace}
	for _, th := range r.threads {
		out.Threads = append(out.Threads, th.info())
	}
	for _, tm := range r.timers {
		if tm.armed {
			out.ArmedTimers++
		}
	}
	// teardown: unwind parked goroutines one at a time against a runtime in aborting mode
	r.aborting = true
	for _, th := range r.threads {
		select {
		case <-th.exited:
		default:
			handoff(th)
			raceDisable()
			<-th.exited
			raceEnable()
		}
	}
	for _, f := range r.onEnd {
		f()
	}
	execEnd()
	rt = nil
	return out
}

//go:norace
func (t *Thread) info() ThreadInfo {
	st := [...]string{"runnable", "blocked", "done"}[t.state]
	return ThreadInfo{ID: t.id, Name: t.name, State: st, Blocked: t.blocked, Daemon: t.daemon}
}

// Threads returns a snapshot of all threads of the running execution.
//
//go:norace
func Threads() []ThreadInfo {
	if rt == nil {
		return nil
	}
	var out []ThreadInfo
	for _, th := range rt.threads {
		out = append(out, th.info())
	}
	return out
}

// ArmedTimers returns the number of armed timers.
//
//go:norace
func ArmedTimers() int {
	n := 0
	if rt != nil {
		for _, tm := range rt.timers {
			if tm.armed {
				n++
			}
		}
	}
	return n
}

// OnEnd registers f to run (on the host goroutine) after the execution has been torn down.
//
//go:norace
func OnEnd(f func()) {
	if rt != nil {
		rt.onEnd = append(rt.onEnd, f)
	}
}

//go:norace
func handoff(t *Thread) {
	raceDisable()
	t.wake <- struct{}{}
	raceEnable()
}

//go:norace
func (r *Runtime) spawn(name string, fn func()) *Thread {
	t := &Thread{id: len(r.threads), name: name, wake: make(chan struct{}, 1), exited: make(chan struct{}), daemon: r.daemonSp}
	if p := r.cur; p != nil {
		p.spawned++
		t.h = mix(p.h, H{p.spawned, 0}, 0x60)
		p.h = mix(p.h, H{p.spawned, 1}, 0x61)
	} else {
		t.h = H{1, 1}
	}
	r.threads = append(r.threads, t)
	r.ready(t)
	raceSpawn(t)
	go r.trampoline(t, fn)
	return t
}

// Go starts fn as a new virtual thread. Outside an execution the call is counted and dropped
// (package-level initialisers such as SystemTimedSched).
//
//go:norace
func Go(name string, fn func()) {
	r := rt
	if r == nil {
		DroppedGo++
		return
	}
	if r.aborting {
		return
	}
	r.spawn(name, fn)
	if r.cfg.Trace {
		r.tracef("go %s", name)
	}
}

// GoDaemon marks threads spawned inside f as library daemons (informational).
//
//go:norace
func Daemons(f func()) {
	if rt == nil {
		f()
		return
	}
	old := rt.daemonSp
	rt.daemonSp = true
	f()
	rt.daemonSp = old
}

//go:norace
func (r *Runtime) trampoline(t *Thread, fn func()) {
	defer close(t.exited)
	raceDisable()
	<-t.wake
	raceEnable()
	if r.aborting {
		return
	}
	raceStart(t)
	defer func() {
		if r.aborting {
			recover()
			return
		}
		if p := recover(); p != nil {
			if _, ok := p.(abortSignal); ok {
				return
			}
			r.fail = fmt.Sprintf("panic in thread %s: %v", t.name, p)
			r.stack = trimStack(string(debug.Stack()))
			r.finish(Panicked)
			return
		}
		t.state = tDone
		t.blocked = ""
		if r.ended {
			return
		}
		if t == r.main {
			r.finish(Done)
			return
		}
		r.reschedule(false)
	}()
	fn()
}

type abortSignal struct{}

//go:norace
func trimStack(s string) string {
	lines := strings.Split(s, "\n")
	var out []string
	for i := 0; i < len(lines); i++ {
		l := lines[i]
		if strings.Contains(l, "runtime/debug.Stack") || strings.Contains(l, "runtime/panic.go") ||
			strings.Contains(l, "panic(") || strings.Contains(l, "vrt.(*Runtime).trampoline") {
			i++
			continue
		}
		out = append(out, l)
		if len(out) > 40 {
			break
		}
	}
	return strings.Join(out, "\n")
}

// finish ends the execution; the caller must not touch shared state afterwards. A live caller parks
// until teardown.
//
//go:norace
func (r *Runtime) finish(st Status) {
	if r.ended {
		return
	}
	r.ended = true
	r.status = st
	r.finished <- struct{}{}
}

// endAndPark ends the execution from a live thread.
//
//go:norace
func (r *Runtime) endAndPark(st Status) {
	r.finish(st)
	r.parkForever()
}

//go:norace
func (r *Runtime) parkForever() {
	t := r.cur
	raceDisable()
	<-t.wake
	raceEnable()
	runtime.Goexit() // only teardown wakes a thread after the execution has ended
}

// Fail records a violation for this execution and ends it.
//
//go:norace
func Fail(format string, args ...any) {
	r := rt
	msg := fmt.Sprintf(format, args...)
	if r == nil {
		panic("vrt.Fail outside execution: " + msg)
	}
	if r.aborting {
		return
	}
	if !r.ended {
		r.fail = msg
	}
	r.endAndPark(Failed)
}

//go:norace
func (r *Runtime) tracef(format string, args ...any) {
	if len(r.trace) < 4000 {
		name := "-"
		if r.cur != nil {
			name = r.cur.name
		}
		r.trace = append(r.trace, fmt.Sprintf("[%d %s %s] ", r.steps, time.Duration(r.now), name)+fmt.Sprintf(format, args...))
	}
}

// Tracef adds a harness line to the trace when tracing is on.
//
//go:norace
func Tracef(format string, args ...any) {
	if rt != nil && rt.cfg.Trace && !rt.aborting {
		rt.tracef(format, args...)
	}
}

//go:norace
func (r *Runtime) ready(t *Thread) {
	if t.state == tDone {
		return
	}
	t.state = tRunnable
	t.blocked = ""
	if !t.inRunq && t != r.cur {
		t.inRunq = true
		r.runq = append(r.runq, t)
	}
}

//go:norace
func (r *Runtime) dequeue(t *Thread) {
	for i, x := range r.runq {
		if x == t {
			for j := i; j+1 < len(r.runq); j++ { // no copy(): runtime.slicecopy is race-instrumented
				r.runq[j] = r.runq[j+1]
			}
			r.runq = r.runq[:len(r.runq)-1]
			break
		}
	}
	t.inRunq = false
}

// Point is a scheduling point: any runnable thread may run next.
//
//go:norace
func Point(label string) {
	r := rt
	if r == nil || r.aborting {
		return
	}
	r.point(label)
}

//go:norace
func (r *Runtime) point(label string) {
	r.steps++
	if r.steps > r.cfg.MaxSteps {
		r.endAndPark(StepCap)
	}
	if r.cfg.Trace {
		r.tracef("%s", label)
	}
	// every scheduling point is a step of the thread's own history (a point without an object event,
	// e.g. Yield, must still change the fingerprint: the thread's local state has advanced)
	r.cur.h = mix(r.cur.h, H{}, 0x01)
	r.reschedule(true)
}

// block parks the current thread until ready() is called for it.
//
//go:norace
func (r *Runtime) block(label string) {
	t := r.cur
	t.state = tBlocked
	t.blocked = label
	if r.cfg.Trace {
		r.tracef("block %s", label)
	}
	r.reschedule(false)
}

//go:norace
func (r *Runtime) blockForever(label string) {
	for {
		r.block(label)
	}
}

// reschedule picks the next thread. curRunnable: the calling thread may continue.
// For a thread in state done the function returns after handing the token on.
//
//go:norace
func (r *Runtime) reschedule(curRunnable bool) {
	cur := r.cur
	for {
		// a timer fired below may have made the (blocked) calling thread runnable again
		curRunnable = cur.state == tRunnable
		en := r.enBuf[:0]
		if curRunnable {
			en = append(en, cur)
		}
		for _, q := range r.runq {
			en = append(en, q)
		}
		r.enBuf = en
		next := r.nextTimer()
		if len(en) == 0 {
			if r.idle != nil && (next == nil || next.when > r.idleDl) {
				t := r.idle
				r.idle = nil
				absorb(t, H{uint64(r.now), 0x1d})
				r.ready(t)
				continue
			}
			if next == nil || next.when > int64(r.cfg.Horizon) {
				if cur.state == tDone {
					r.finish(Quiescent)
					return
				}
				r.endAndPark(Quiescent)
			}
			r.fireAt(next.when)
			continue
		}
		nreal := len(en)
		for _, t := range r.threads {
			if t.lurk != nil && t.lurk.armed {
				en = append(en, t)
			}
		}
		r.enBuf = en
		n := len(en)
		timerOpt := -1
		if next != nil && r.cfg.TimerEarlyCost >= 0 && next.when <= int64(r.cfg.Horizon) &&
			(r.cfg.EarlyWindow == 0 || next.when <= r.now+int64(r.cfg.EarlyWindow)) &&
			(r.idle == nil || next.when <= r.idleDl) {
			timerOpt = n
			n++
		}
		idx := 0
		if n > 1 {
			if r.pruner != nil && !r.pruner.Visit(r.stateKey(curRunnable)) {
				if cur.state == tDone {
					r.finish(Pruned)
					return
				}
				r.endAndPark(Pruned)
			}
			costs := r.costBuf[:0]
			for i := 0; i < len(en); i++ {
				c := int8(0)
				if i >= nreal {
					c = max(r.cfg.LurkCost, 1)
				} else if i > 0 {
					if curRunnable {
						c = r.cfg.PreemptCost
					} else {
						c = r.cfg.SwitchCost
					}
				}
				costs = append(costs, c)
			}
			if timerOpt >= 0 {
				costs = append(costs, r.cfg.TimerEarlyCost)
			}
			r.costBuf = costs
			idx = r.choose(KThread, n, costs, "")
		}
		if idx == timerOpt {
			r.earlyFires++
			r.fireAt(next.when)
			continue
		}
		nt := en[idx]
		if idx >= nreal {
			// release a lurking thread early and run it right away
			nt.lurk.armed = false
			nt.lurk = nil
			absorb(nt, H{uint64(r.now), 0x1c})
			nt.state = tRunnable
			nt.blocked = ""
		}
		if nt == cur {
			return
		}
		r.dequeue(nt)
		if curRunnable {
			cur.inRunq = true
			r.runq = append(r.runq, cur)
		}
		r.cur = nt
		if r.cfg.Trace {
			r.tracef("switch -> %s", nt.name)
		}
		handoff(nt)
		if cur.state == tDone {
			return
		}
		raceDisable()
		<-cur.wake
		raceEnable()
		if r.aborting {
			runtime.Goexit()
		}
		return
	}
}

//go:norace
func (r *Runtime) choose(kind Kind, n int, costs []int8, label string) int {
	r.points++
	c := r.cfg.Chooser.Choose(kind, n, costs, label)
	if c < 0 || c >= n {
		panic(fmt.Sprintf("vrt: chooser returned %d of %d", c, n))
	}
	if r.cfg.Trace {
		r.tracef("choose %s %d/%d %s", kind, c, n, label)
	}
	return c
}

// Choose is a free environment choice made by the harness.
//
//go:norace
func Choose(n int, label string) int {
	r := rt
	if r == nil {
		panic("vrt.Choose outside execution")
	}
	if r.aborting || n <= 1 {
		return 0
	}
	c := r.choose(KEnv, n, nil, label)
	r.cur.h = mix(r.cur.h, H{uint64(c), uint64(n)}, 0xe0)
	return c
}

// ChooseDev is an environment choice whose non-default alternatives cost one deviation each.
//
//go:norace
func ChooseDev(n int, label string) int {
	r := rt
	if r == nil {
		panic("vrt.ChooseDev outside execution")
	}
	if r.aborting || n <= 1 {
		return 0
	}
	costs := make([]int8, n)
	for i := 1; i < n; i++ {
		costs[i] = 1
	}
	c := r.choose(KEnv, n, costs, label)
	r.cur.h = mix(r.cur.h, H{uint64(c), uint64(n)}, 0xe1)
	return c
}

// Idle blocks the calling thread until nothing else is runnable and no timer is due within d of
// virtual time from now. It is how a harness "lets the system run" for a bounded virtual duration.
//
//go:norace
func Idle(d time.Duration) {
	r := rt
	if r == nil || r.aborting {
		return
	}
	if r.idle != nil {
		panic("vrt: two idle waiters")
	}
	r.idle = r.cur
	r.idleDl = r.now + int64(d)
	r.block("idle")
}

// Yield is an explicit scheduling point for harness code.
//
//go:norace
func Yield() { Point("yield") }

// EarlyFires returns how many times a timer was fired early (a C-deviation) in this execution.
//
//go:norace
func EarlyFires() int {
	if rt == nil {
		return 0
	}
	return rt.earlyFires
}
