// Package vsync is the drop-in for "sync" in the transformed kcp-go sources.
package vsync

import (
	"sync"

	"verif/vrt"
)

type (
	Mutex     = vrt.Mutex
	RWMutex   = vrt.RWMutex
	Once      = vrt.Once
	WaitGroup = vrt.WaitGroup
	Cond      = vrt.Cond
	Pool      = vrt.Pool
	Locker    = vrt.Locker
	// Map never blocks and is only ever touched by the token holder.
	Map = sync.Map
)

func NewCond(l Locker) *Cond { return vrt.NewCond(l) }

func OnceFunc(f func()) func() {
	var o Once
	return func() { o.Do(f) }
}

func OnceValue[T any](f func() T) func() T {
	var o Once
	var v T
	return func() T { o.Do(func() { v = f() }); return v }
}

func OnceValues[T1, T2 any](f func() (T1, T2)) func() (T1, T2) {
	var o Once
	var v1 T1
	var v2 T2
	return func() (T1, T2) { o.Do(func() { v1, v2 = f() }); return v1, v2 }
}
