package vrt

import (
	"cmp"
	"slices"
)

// SortedKeys returns the keys of m in ascending order: the deterministic replacement for Go's
// randomised map iteration order.
//
//go:norace
func SortedKeys[M ~map[K]V, K cmp.Ordered, V any](m M) []K {
	keys := make([]K, 0, len(m))
	for k := range m {
		keys = append(keys, k)
	}
	slices.Sort(keys)
	return keys
}
