package vrt

// ptab is a pointer-keyed open-addressing hash table. The shims cannot use Go maps: the runtime's map
// functions carry their own race instrumentation, which would report the scheduler's (token-ordered)
// accesses in HB-race mode even from //go:norace callers.
type ptab[V any] struct {
	keys []uintptr
	vals []V
	n    int
}

//go:norace
func (t *ptab[V]) slot(k uintptr) int {
	m := uintptr(len(t.keys) - 1)
	i := (k * 0x9e3779b97f4a7c15 >> 17) & m
	for t.keys[i] != 0 && t.keys[i] != k {
		i = (i + 1) & m
	}
	return int(i)
}

//go:norace
func (t *ptab[V]) get(k uintptr) (v V, ok bool) {
	if t.n == 0 {
		return v, false
	}
	i := t.slot(k)
	if t.keys[i] == k {
		return t.vals[i], true
	}
	return v, false
}

//go:norace
func (t *ptab[V]) put(k uintptr, v V) {
	if len(t.keys) == 0 || t.n*2 >= len(t.keys) {
		old := *t
		sz := max(64, len(old.keys)*2)
		t.keys, t.vals, t.n = make([]uintptr, sz), make([]V, sz), 0
		for i, ok := range old.keys {
			if ok != 0 {
				t.put(ok, old.vals[i])
			}
		}
	}
	i := t.slot(k)
	if t.keys[i] == 0 {
		t.keys[i] = k
		t.n++
	}
	t.vals[i] = v
}

//go:norace
func (t *ptab[V]) reset() { t.keys, t.vals, t.n = nil, nil, 0 }
