package vrt

import (
	"time"
)

// Virtual epoch: an arbitrary fixed instant; virtual Now = Epoch0 + virtual ns.
var Epoch0 = time.Unix(1700000000, 0)

// Now returns the virtual time.
//
//go:norace
func Now() time.Time { return Epoch0.Add(time.Duration(NowNS())) }

// SetSeqNow sets the virtual clock used outside executions.
//
//go:norace
func SetSeqNow(ns int64) { seqNow = ns }

// Advance moves the virtual clock forward by d without running timers; only meaningful for
// single-threaded (sequential) harnesses that own the clock.
//
//go:norace
func Advance(d time.Duration) {
	if rt == nil {
		seqNow += int64(d)
		return
	}
	if rt.aborting {
		return
	}
	rt.now += int64(d)
}

// SetNow sets the virtual clock of the current execution (sequential harnesses only).
//
//go:norace
func SetNow(ns int64) {
	if rt == nil {
		seqNow = ns
		return
	}
	rt.now = ns
}

type rtimer struct {
	when   int64
	armed  bool
	seq    uint64
	fire   func(now int64) // runs inside the scheduler: must not block or reach a scheduling point
	inList bool
}

//go:norace
func (r *Runtime) nextTimer() *rtimer {
	var best *rtimer
	j := 0
	for _, t := range r.timers {
		if !t.armed {
			t.inList = false
			continue
		}
		r.timers[j] = t
		j++
		if best == nil || t.when < best.when || (t.when == best.when && t.seq < best.seq) {
			best = t
		}
	}
	for k := j; k < len(r.timers); k++ {
		r.timers[k] = nil
	}
	r.timers = r.timers[:j]
	return best
}

// fireAt advances the clock to just after `when` and fires every timer due at that instant, in
// creation order. The clock skids 1ns past the expiry instant, as a real clock read after expiry does.
//
//go:norace
func (r *Runtime) fireAt(when int64) {
	if when+1 > r.now {
		r.now = when + 1
	}
	r.barrier()
	for {
		var best *rtimer
		for _, t := range r.timers {
			if t.armed && t.when <= when && (best == nil || t.when < best.when || (t.when == best.when && t.seq < best.seq)) {
				best = t
			}
		}
		if best == nil {
			return
		}
		best.armed = false
		if r.cfg.Trace {
			r.tracef("timer fires (when=%s)", time.Duration(best.when))
		}
		best.fire(r.now)
	}
}

//go:norace
func (r *Runtime) arm(t *rtimer, d time.Duration) {
	if d < 0 {
		d = 0
	}
	t.when = r.now + int64(d)
	if t.when < r.now { // overflow: "never" (the real runtime saturates the same way)
		t.when = 1<<63 - 1
	}
	r.timerSeq++
	t.seq = r.timerSeq
	t.armed = true
	if !t.inList {
		t.inList = true
		r.timers = append(r.timers, t)
	}
}

// ChanTimer is the drop-in for time.Timer.
type ChanTimer struct {
	h       H
	C       *Chan[time.Time]
	t       rtimer
	async   bool
	fn      func() // AfterFunc
	expired bool   // sync mode: expired but value not yet materialised
	epoch   uint64
}

// NewTimer mirrors time.NewTimer.
//
//go:norace
func NewTimer(d time.Duration) *ChanTimer {
	r := rt
	tm := &ChanTimer{}
	if r == nil || r.aborting {
		tm.C = MakeChan[time.Time](1)
		return tm
	}
	tm.epoch = r.epoch
	tm.async = r.cfg.AsyncTimerChan
	tm.C = MakeChan[time.Time](1)
	if !tm.async {
		tm.C.syncTimer = true
		tm.C.poll = tm.poll
	}
	tm.t.fire = tm.fire
	r.arm(&tm.t, d)
	raceRelease(&tm.t)
	return tm
}

// AfterFunc mirrors time.AfterFunc.
//
//go:norace
func AfterFunc(d time.Duration, f func()) *ChanTimer {
	r := rt
	tm := &ChanTimer{fn: f}
	if r == nil || r.aborting {
		return tm
	}
	tm.epoch = r.epoch
	tm.t.fire = func(int64) {
		raceAcquire(&tm.t)
		r.spawn("afterfunc", f)
	}
	r.arm(&tm.t, d)
	raceRelease(&tm.t)
	return tm
}

//go:norace
func (tm *ChanTimer) fire(now int64) {
	tm.h = mix(tm.h, H{uint64(now), 0}, 0x92)
	tm.C.h = mix(tm.C.h, tm.h, 0x93)
	v := Epoch0.Add(time.Duration(now))
	if tm.async {
		tm.C.rawSendNB(v)
		return
	}
	// sync mode: deliver to a blocked receiver right away, otherwise materialise lazily on poll
	if tm.C.hasRecvWaiter() {
		tm.C.rawSendNB(v)
		return
	}
	tm.expired = true
}

//go:norace
func (tm *ChanTimer) poll() {
	if tm.expired {
		tm.expired = false
		tm.C.rawSendNB(Now())
	}
}

//go:norace
func (tm *ChanTimer) live() bool {
	r := rt
	return r != nil && !r.aborting && tm.epoch == r.epoch
}

// Stop mirrors time.Timer.Stop for both timer-channel semantics.
//
//go:norace
func (tm *ChanTimer) Stop() bool {
	if !tm.live() {
		return false
	}
	r := rt
	r.point("timer.Stop")
	r.event(&tm.h, 0x90)
	pending := tm.t.armed
	tm.t.armed = false
	if tm.fn == nil && !tm.async {
		if tm.expired {
			pending = true
			tm.expired = false
		}
		if tm.C.rawDrain() {
			pending = true
		}
	}
	return pending
}

// Reset mirrors time.Timer.Reset.
//
//go:norace
func (tm *ChanTimer) Reset(d time.Duration) bool {
	if !tm.live() {
		return false
	}
	r := rt
	r.point("timer.Reset")
	r.event(&tm.h, 0x91)
	pending := tm.t.armed
	if tm.fn == nil && !tm.async {
		if tm.expired {
			pending = true
			tm.expired = false
		}
		if tm.C.rawDrain() {
			pending = true
		}
	}
	r.arm(&tm.t, d)
	raceRelease(&tm.t)
	return pending
}

// Sleep blocks the calling thread for d of virtual time.
//
//go:norace
func Sleep(d time.Duration) {
	r := rt
	if r == nil {
		if d > 0 {
			seqNow += int64(d)
		}
		return
	}
	if r.aborting {
		return
	}
	if d <= 0 {
		r.point("sleep0")
		return
	}
	t := r.cur
	tm := &rtimer{}
	tm.fire = func(now int64) { absorb(t, H{uint64(now), 0x51}); r.ready(t) }
	r.arm(tm, d)
	r.block("sleep")
}

// Ticker is the drop-in for time.Ticker.
type Ticker struct {
	C      *Chan[time.Time]
	t      rtimer
	period time.Duration
	epoch  uint64
}

//go:norace
func NewTicker(d time.Duration) *Ticker {
	if d <= 0 {
		panic("non-positive interval for NewTicker")
	}
	r := rt
	tk := &Ticker{period: d, C: MakeChan[time.Time](1)}
	if r == nil || r.aborting {
		return tk
	}
	tk.epoch = r.epoch
	tk.t.fire = func(now int64) {
		tk.C.rawSendNB(Epoch0.Add(time.Duration(now)))
		r.arm(&tk.t, tk.period)
	}
	r.arm(&tk.t, d)
	return tk
}

//go:norace
func (tk *Ticker) Stop() {
	if rt == nil || rt.aborting || tk.epoch != rt.epoch {
		return
	}
	rt.point("ticker.Stop")
	tk.t.armed = false
}

//go:norace
func (tk *Ticker) Reset(d time.Duration) {
	if rt == nil || rt.aborting || tk.epoch != rt.epoch {
		return
	}
	rt.point("ticker.Reset")
	tk.period = d
	rt.arm(&tk.t, d)
}

// Lurk blocks the calling thread for at most d of virtual time, but the explorer may release it at any
// scheduling point before that (one deviation): "this may happen at any moment" for closers and the like.
//
//go:norace
func Lurk(d time.Duration) {
	r := rt
	if r == nil || r.aborting {
		return
	}
	t := r.cur
	tm := &rtimer{}
	tm.fire = func(now int64) {
		t.lurk = nil
		absorb(t, H{uint64(now), 0x1b})
		r.ready(t)
	}
	r.arm(tm, d)
	t.lurk = tm
	r.block("lurk")
}
