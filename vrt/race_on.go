//go:build race

package vrt

import (
	"runtime"
	"unsafe"
)

// RaceEnabled reports whether the binary was built with -race (HB-race mode).
const RaceEnabled = true

// The shims announce exactly the happens-before edges the program's own synchronisation creates;
// the scheduler's token hand-offs are hidden from ThreadSanitizer (RaceDisable around them).

//go:norace
func raceAcquire[T any](p *T) { runtime.RaceAcquire(unsafe.Pointer(p)) }

//go:norace
func raceRelease[T any](p *T) { runtime.RaceRelease(unsafe.Pointer(p)) }

//go:norace
func raceReleaseMerge[T any](p *T) { runtime.RaceReleaseMerge(unsafe.Pointer(p)) }

//go:norace
func raceDisable() { runtime.RaceDisable() }

//go:norace
func raceEnable() { runtime.RaceEnable() }

// spawn edge: everything the parent did before `go` happens before the child starts.
//
//go:norace
func raceSpawn(t *Thread) { runtime.RaceRelease(unsafe.Pointer(&t.id)) }

//go:norace
func raceStart(t *Thread) { runtime.RaceAcquire(unsafe.Pointer(&t.id)) }

var execChain byte

// executions of one process are chained so that globals do not race across executions
//
//go:norace
func execBegin() { runtime.RaceAcquire(unsafe.Pointer(&execChain)) }

//go:norace
func execEnd() { runtime.RaceReleaseMerge(unsafe.Pointer(&execChain)) }

// RaceErrors returns the number of race reports so far.
//
//go:norace
func RaceErrors() int { return runtime.RaceErrors() }
