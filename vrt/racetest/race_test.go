package racetest

import (
	"testing"
	"time"

	"verif/explore"
	"verif/vrt"
)

func run(t *testing.T, name string, body func()) int {
	before := vrt.RaceErrors()
	e := &explore.Exec{}
	out := vrt.Run(vrt.Config{Chooser: e, PreemptCost: 1, TimerEarlyCost: -1}, body)
	d := vrt.RaceErrors() - before
	t.Logf("%s: status=%s race reports=%d", name, out.Status, d)
	return d
}

func TestRaceMode(t *testing.T) {
	// 1. unlocked x++ from two threads: must be reported even on the sequential schedule
	x := 0
	if run(t, "unlocked", func() {
		var wg vrt.WaitGroup
		wg.Add(2)
		vrt.Go("a", func() { x++; wg.Done() })
		vrt.Go("b", func() { x++; wg.Done() })
		wg.Wait()
	}) == 0 {
		t.Errorf("unlocked increment not reported")
	}
	// 2. same under the shim mutex: silent
	y := 0
	var m vrt.Mutex
	if run(t, "mutex", func() {
		var wg vrt.WaitGroup
		wg.Add(2)
		vrt.Go("a", func() { m.Lock(); y++; m.Unlock(); wg.Done() })
		vrt.Go("b", func() { m.Lock(); y++; m.Unlock(); wg.Done() })
		wg.Wait()
		_ = y
	}) != 0 {
		t.Errorf("mutex-protected increment reported")
	}
	// 3. channel hand-over: silent; select + timer: silent
	z := 0
	if run(t, "chan", func() {
		c := vrt.MakeChan[int](0)
		d := vrt.MakeChan[struct{}](1)
		vrt.Go("a", func() { z = 1; c.Send(1) })
		vrt.Go("b", func() { c.Recv(); z++; d.Send(struct{}{}) })
		tm := vrt.NewTimer(time.Second)
		var tv time.Time
		switch vrt.Select(false, d.RecvCase(nil, nil), tm.C.RecvCase(&tv, nil)) {
		}
		_ = z
	}) != 0 {
		t.Errorf("channel-ordered accesses reported")
	}
	// 4. atomic.Value publish without other sync: reading the pointed-to data is ordered by the atomic
	var v vrt.Value
	if run(t, "atomicvalue", func() {
		var wg vrt.WaitGroup
		wg.Add(2)
		vrt.Go("a", func() { p := new(int); *p = 5; v.Store(p); wg.Done() })
		vrt.Go("b", func() {
			if p, ok := v.Load().(*int); ok {
				_ = *p
			}
			wg.Done()
		})
		wg.Wait()
	}) != 0 {
		t.Errorf("atomic.Value publication reported")
	}
	// 5. Once, Pool
	var o vrt.Once
	w := 0
	if run(t, "once", func() {
		var wg vrt.WaitGroup
		for i := 0; i < 3; i++ {
			wg.Add(1)
			vrt.Go("o", func() { o.Do(func() { w = 7 }); _ = w; wg.Done() })
		}
		wg.Wait()
	}) != 0 {
		t.Errorf("Once-ordered accesses reported")
	}
	// 6. consecutive executions touching the same global do not race with each other
	g := 0
	for i := 0; i < 3; i++ {
		if run(t, "chain", func() { g++ }) != 0 {
			t.Errorf("cross-execution false race")
		}
	}
}
