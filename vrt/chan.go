package vrt

// Chan[T] is the drop-in for `chan T`. It follows the Go runtime's algorithm: a FIFO buffer, FIFO wait
// queues of senders and receivers, rendezvous for unbuffered channels, close waking everybody.
// A nil *Chan[T] behaves like a nil channel (never ready).
type Chan[T any] struct {
	h         H
	capacity  int
	buf       []T
	closed    bool
	recvq     []*rwaiter[T]
	sendq     []*swaiter[T]
	poll      func() // timer hook (sync timer channels materialise their value on poll)
	syncTimer bool
	slots     []byte // race addresses, one per buffer slot (+1 for close)
	sendx     int
	recvx     int
}

type selState struct {
	t      *Thread
	done   bool
	chosen int
}

type rwaiter[T any] struct {
	t    *Thread
	sel  *selState
	idx  int
	dst  *T
	ok   *bool
	done bool
	sync [2]byte
}

type swaiter[T any] struct {
	t           *Thread
	sel         *selState
	idx         int
	val         T
	done        bool
	panicClosed bool
	sync        [2]byte
}

// MakeChan mirrors make(chan T, n).
//
//go:norace
func MakeChan[T any](n int) *Chan[T] {
	if n < 0 {
		panic("makechan: size out of range")
	}
	c := &Chan[T]{capacity: n}
	if RaceEnabled {
		c.slots = make([]byte, n+2)
	}
	return c
}

//go:norace
func (c *Chan[T]) Len() int {
	if c == nil {
		return 0
	}
	if c.syncTimer {
		return 0
	}
	if r := rt; r != nil && !r.aborting {
		r.point("len(chan)")
		if c.poll != nil {
			c.poll()
		}
		r.event(&c.h, 0x80)
	}
	return len(c.buf)
}

//go:norace
func (c *Chan[T]) Cap() int {
	if c == nil {
		return 0
	}
	if c.syncTimer {
		return 0
	}
	return c.capacity
}

// Zero returns the zero value of the element type (used by generated select code).
//
//go:norace
func (c *Chan[T]) Zero() (z T) { return }

//go:norace
func (c *Chan[T]) closeAddr() *byte { return &c.slots[len(c.slots)-1] }

//go:norace
func (c *Chan[T]) popRecv() *rwaiter[T] {
	for len(c.recvq) > 0 {
		w := c.recvq[0]
		c.recvq[0] = nil
		c.recvq = c.recvq[1:]
		if w.done || (w.sel != nil && w.sel.done) {
			continue
		}
		return w
	}
	return nil
}

//go:norace
func (c *Chan[T]) popSend() *swaiter[T] {
	for len(c.sendq) > 0 {
		w := c.sendq[0]
		c.sendq[0] = nil
		c.sendq = c.sendq[1:]
		if w.done || (w.sel != nil && w.sel.done) {
			continue
		}
		return w
	}
	return nil
}

//go:norace
func (c *Chan[T]) hasRecvWaiter() bool {
	for _, w := range c.recvq {
		if !w.done && (w.sel == nil || !w.sel.done) {
			return true
		}
	}
	return false
}

//go:norace
func (c *Chan[T]) hasSendWaiter() bool {
	for _, w := range c.sendq {
		if !w.done && (w.sel == nil || !w.sel.done) {
			return true
		}
	}
	return false
}

//go:norace
func completeSel(sel *selState, idx int) {
	if sel != nil {
		sel.done = true
		sel.chosen = idx
	}
}

// recvReady reports whether a receive can complete without blocking.
//
//go:norace
func (c *Chan[T]) recvReady() bool {
	if c.poll != nil {
		c.poll()
	}
	return len(c.buf) > 0 || c.closed || c.hasSendWaiter()
}

//go:norace
func (c *Chan[T]) sendReady() bool {
	return c.closed || len(c.buf) < c.capacity || c.hasRecvWaiter()
}

// doRecv performs a receive that is known to be ready.
//
//go:norace
func (c *Chan[T]) doRecv() (v T, ok bool) {
	r := rt
	r.event(&c.h, 0x81)
	if len(c.buf) > 0 {
		v = c.buf[0]
		var z T
		c.buf[0] = z
		c.buf = c.buf[1:]
		if RaceEnabled {
			raceAcquire(&c.slots[c.recvx])
			raceRelease(&c.slots[c.recvx])
			c.recvx = (c.recvx + 1) % max(c.capacity, 1)
		}
		if w := c.popSend(); w != nil { // a sender was waiting for room
			c.buf = append(c.buf, w.val)
			if RaceEnabled {
				raceAcquire(&w.sync[0])
				c.sendx = (c.sendx + 1) % max(c.capacity, 1)
			}
			w.done = true
			completeSel(w.sel, w.idx)
			absorb(w.t, c.h)
			r.ready(w.t)
		}
		return v, true
	}
	if w := c.popSend(); w != nil { // rendezvous
		v = w.val
		raceAcquire(&w.sync[0])
		raceRelease(&w.sync[1])
		w.done = true
		completeSel(w.sel, w.idx)
		absorb(w.t, c.h)
		r.ready(w.t)
		return v, true
	}
	if c.closed {
		if RaceEnabled {
			raceAcquire(c.closeAddr())
		}
		return v, false
	}
	panic("vrt: doRecv on a channel that is not ready")
}

// doSend performs a send that is known to be ready.
//
//go:norace
func (c *Chan[T]) doSend(v T) {
	r := rt
	r.event(&c.h, 0x82)
	if c.closed {
		panic("send on closed channel")
	}
	if w := c.popRecv(); w != nil {
		*w.dst = v
		if w.ok != nil {
			*w.ok = true
		}
		raceAcquire(&w.sync[1])
		raceRelease(&w.sync[0])
		w.done = true
		completeSel(w.sel, w.idx)
		absorb(w.t, c.h)
		r.ready(w.t)
		return
	}
	c.buf = append(c.buf, v)
	if RaceEnabled {
		raceAcquire(&c.slots[c.sendx])
		raceRelease(&c.slots[c.sendx])
		c.sendx = (c.sendx + 1) % max(c.capacity, 1)
	}
}

// rawSendNB is a non-blocking send used by timers from inside the scheduler: no scheduling point,
// no happens-before edge (the sender is the runtime, not a program thread).
//
//go:norace
func (c *Chan[T]) rawSendNB(v T) bool {
	r := rt
	c.h = mix(c.h, H{uint64(r.now), 0}, 0x83)
	if w := c.popRecv(); w != nil {
		*w.dst = v
		if w.ok != nil {
			*w.ok = true
		}
		w.done = true
		completeSel(w.sel, w.idx)
		absorb(w.t, c.h)
		r.ready(w.t)
		return true
	}
	if len(c.buf) < c.capacity {
		c.buf = append(c.buf, v)
		if RaceEnabled {
			c.sendx = (c.sendx + 1) % max(c.capacity, 1)
		}
		return true
	}
	return false
}

// rawDrain discards buffered values (sync timer Stop/Reset); reports whether there was one.
//
//go:norace
func (c *Chan[T]) rawDrain() bool {
	c.h = mix(c.h, H{}, 0x84)
	if len(c.buf) == 0 {
		return false
	}
	if RaceEnabled {
		c.recvx = (c.recvx + len(c.buf)) % max(c.capacity, 1)
	}
	c.buf = c.buf[:0]
	return true
}

//go:norace
func inactive() bool { return rt == nil || rt.aborting }

// Recv mirrors `<-c`.
//
//go:norace
func (c *Chan[T]) Recv() T {
	v, _ := c.Recv2()
	return v
}

// Recv2 mirrors `v, ok := <-c`.
//
//go:norace
func (c *Chan[T]) Recv2() (v T, ok bool) {
	if inactive() {
		if c != nil && len(c.buf) > 0 {
			v = c.buf[0]
			c.buf = c.buf[1:]
			return v, true
		}
		return v, false
	}
	r := rt
	if c == nil {
		r.point("recv(nil chan)")
		r.blockForever("recv on nil channel")
	}
	r.point("recv")
	if c.recvReady() {
		return c.doRecv()
	}
	w := &rwaiter[T]{t: r.cur, dst: &v, ok: &ok}
	raceRelease(&w.sync[1])
	r.event(&c.h, 0x85)
	c.recvq = append(c.recvq, w)
	r.block("chan recv")
	if ok {
		raceAcquire(&w.sync[0])
	} else if RaceEnabled {
		raceAcquire(c.closeAddr())
	}
	return v, ok
}

// Send mirrors `c <- v`.
//
//go:norace
func (c *Chan[T]) Send(v T) {
	if inactive() {
		if c != nil && !c.closed && len(c.buf) < c.capacity {
			c.buf = append(c.buf, v)
		}
		return
	}
	r := rt
	if c == nil {
		r.point("send(nil chan)")
		r.blockForever("send on nil channel")
	}
	r.point("send")
	if c.sendReady() {
		c.doSend(v)
		return
	}
	w := &swaiter[T]{t: r.cur, val: v}
	raceRelease(&w.sync[0])
	r.event(&c.h, 0x86)
	c.sendq = append(c.sendq, w)
	r.block("chan send")
	if w.panicClosed {
		panic("send on closed channel")
	}
	raceAcquire(&w.sync[1])
}

// Close mirrors close(c).
//
//go:norace
func (c *Chan[T]) Close() {
	if inactive() {
		if c != nil {
			c.closed = true
		}
		return
	}
	r := rt
	if c == nil {
		panic("close of nil channel")
	}
	r.point("close")
	if c.closed {
		panic("close of closed channel")
	}
	c.closed = true
	r.event(&c.h, 0x87)
	if RaceEnabled {
		raceRelease(c.closeAddr())
	}
	for {
		w := c.popRecv()
		if w == nil {
			break
		}
		var z T
		*w.dst = z
		if w.ok != nil {
			*w.ok = false
		}
		w.done = true
		completeSel(w.sel, w.idx)
		absorb(w.t, c.h)
		r.ready(w.t)
	}
	for {
		w := c.popSend()
		if w == nil {
			break
		}
		w.panicClosed = true
		w.done = true
		completeSel(w.sel, w.idx)
		absorb(w.t, c.h)
		r.ready(w.t)
	}
}

// Case is one communication clause of a select.
type Case interface {
	ready() bool
	observe() // happens-before event for a clause that was examined but did not proceed
	exec()
	enqueue(sel *selState, idx int)
	after(sel *selState, chosen bool)
}

type recvCase[T any] struct {
	c   *Chan[T]
	dst *T
	ok  *bool
	w   *rwaiter[T]
}

type sendCase[T any] struct {
	c *Chan[T]
	v T
	w *swaiter[T]
}

// RecvCase builds `case *dst, *ok = <-c`; dst and ok may be nil.
//
//go:norace
func (c *Chan[T]) RecvCase(dst *T, ok *bool) Case {
	if dst == nil {
		dst = new(T)
	}
	if ok == nil {
		ok = new(bool)
	}
	return &recvCase[T]{c: c, dst: dst, ok: ok}
}

// SendCase builds `case c <- v`.
//
//go:norace
func (c *Chan[T]) SendCase(v T) Case { return &sendCase[T]{c: c, v: v} }

//go:norace
func (k *recvCase[T]) ready() bool { return k.c != nil && k.c.recvReady() }

//go:norace
func (k *recvCase[T]) observe() {
	if k.c != nil {
		rt.event(&k.c.h, 0x88)
	}
}

//go:norace
func (k *recvCase[T]) exec() {
	*k.dst, *k.ok = k.c.doRecv()
}

//go:norace
func (k *recvCase[T]) enqueue(sel *selState, idx int) {
	if k.c == nil {
		return
	}
	k.w = &rwaiter[T]{t: sel.t, sel: sel, idx: idx, dst: k.dst, ok: k.ok}
	raceRelease(&k.w.sync[1])
	k.c.recvq = append(k.c.recvq, k.w)
}

//go:norace
func (k *recvCase[T]) after(sel *selState, chosen bool) {
	if k.w == nil {
		return
	}
	if chosen {
		if *k.ok {
			raceAcquire(&k.w.sync[0])
		} else if RaceEnabled {
			raceAcquire(k.c.closeAddr())
		}
	} else {
		k.w.done = true
		q := k.c.recvq
		for i, w := range q {
			if w == k.w {
				for j := i; j+1 < len(q); j++ { // no copy(): runtime.slicecopy is race-instrumented
					q[j] = q[j+1]
				}
				q[len(q)-1] = nil
				k.c.recvq = q[:len(q)-1]
				break
			}
		}
	}
}

//go:norace
func (k *sendCase[T]) ready() bool { return k.c != nil && k.c.sendReady() }

//go:norace
func (k *sendCase[T]) observe() {
	if k.c != nil {
		rt.event(&k.c.h, 0x88)
	}
}

//go:norace
func (k *sendCase[T]) exec() { k.c.doSend(k.v) }

//go:norace
func (k *sendCase[T]) enqueue(sel *selState, idx int) {
	if k.c == nil {
		return
	}
	k.w = &swaiter[T]{t: sel.t, sel: sel, idx: idx, val: k.v}
	raceRelease(&k.w.sync[0])
	k.c.sendq = append(k.c.sendq, k.w)
}

//go:norace
func (k *sendCase[T]) after(sel *selState, chosen bool) {
	if k.w == nil {
		return
	}
	if chosen {
		if k.w.panicClosed {
			panic("send on closed channel")
		}
		raceAcquire(&k.w.sync[1])
	} else {
		k.w.done = true
		q := k.c.sendq
		for i, w := range q {
			if w == k.w {
				for j := i; j+1 < len(q); j++ { // no copy(): runtime.slicecopy is race-instrumented
					q[j] = q[j+1]
				}
				q[len(q)-1] = nil
				k.c.sendq = q[:len(q)-1]
				break
			}
		}
	}
}

// Select mirrors a select statement. It returns the index of the clause that proceeded, or -1 for
// the default clause. When several clauses are ready the choice belongs to the Chooser.
//
//go:norace
func Select(hasDefault bool, cases ...Case) int {
	if inactive() {
		for i, c := range cases {
			if c.ready() {
				c.exec()
				return i
			}
		}
		if hasDefault {
			return -1
		}
		return 0
	}
	r := rt
	r.point("select")
	var rdy [8]int
	ready := rdy[:0]
	for i, c := range cases {
		if c.ready() {
			ready = append(ready, i)
		}
	}
	if len(ready) > 0 {
		k := 0
		if len(ready) > 1 {
			costs := make([]int8, len(ready))
			for i := 1; i < len(costs); i++ {
				costs[i] = r.cfg.SelectCost
			}
			k = r.choose(KSelect, len(ready), costs, "")
		}
		i := ready[k]
		for j, c := range cases {
			if j != i {
				c.observe()
			}
		}
		cases[i].exec()
		return i
	}
	for _, c := range cases {
		c.observe()
	}
	if hasDefault {
		return -1
	}
	sel := &selState{t: r.cur, chosen: -2}
	for i, c := range cases {
		c.enqueue(sel, i)
	}
	for !sel.done {
		r.block("select")
	}
	for i, c := range cases {
		c.after(sel, i == sel.chosen)
	}
	return sel.chosen
}
