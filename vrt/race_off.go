//go:build !race

package vrt

// RaceEnabled reports whether the binary was built with -race (HB-race mode).
const RaceEnabled = false

//go:norace
func raceAcquire[T any](p *T) {}

//go:norace
func raceRelease[T any](p *T) {}

//go:norace
func raceReleaseMerge[T any](p *T) {}

//go:norace
func raceDisable() {}

//go:norace
func raceEnable() {}

//go:norace
func raceSpawn(t *Thread) {}

//go:norace
func raceStart(t *Thread) {}

//go:norace
func execBegin() {}

//go:norace
func execEnd() {}

// RaceErrors returns the number of race reports so far (always 0 without -race).
//
//go:norace
func RaceErrors() int { return 0 }
