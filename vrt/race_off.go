//go:build !race

package vrt

// RaceEnabled reports whether the binary was built with -race (HB-race mode).
const RaceEnabled = false

func raceAcquire[T any](p *T)      {}
func raceRelease[T any](p *T)      {}
func raceReleaseMerge[T any](p *T) {}
func raceDisable()                 {}
func raceEnable()                  {}
func raceSpawn(t *Thread)          {}
func raceStart(t *Thread)          {}
func execBegin()                   {}
func execEnd()                     {}

// RaceErrors returns the number of race reports so far (always 0 without -race).
func RaceErrors() int { return 0 }
