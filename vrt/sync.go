package vrt

import (
	"fmt"
	"unsafe"
)

// Mutex is the drop-in for sync.Mutex. Lock is a scheduling point; Unlock is not (left-mover) and
// wakes every waiter, each of which retries — so barging and every wake-up order are explorable.
type Mutex struct {
	h       H
	held    bool
	epoch   uint64
	owner   *Thread
	waiters []*Thread
}

//go:norace
func (m *Mutex) fresh(r *Runtime) {
	if m.epoch != r.epoch {
		m.epoch = r.epoch
		m.held = false
		m.owner = nil
		m.waiters = nil
		m.h = H{}
	}
}

//go:norace
func (m *Mutex) Lock() {
	r := rt
	if r == nil {
		if m.held && m.epoch == 0 {
			panic("vrt: Mutex.Lock would deadlock outside an execution")
		}
		m.held, m.epoch = true, 0
		return
	}
	if r.aborting {
		return
	}
	m.fresh(r)
	r.point("Lock")
	for m.held {
		m.waiters = append(m.waiters, r.cur)
		r.block("mutex")
	}
	m.held = true
	m.owner = r.cur
	r.event(&m.h, 0x10)
	raceAcquire(m)
}

//go:norace
func (m *Mutex) TryLock() bool {
	r := rt
	if r == nil {
		if m.held && m.epoch == 0 {
			return false
		}
		m.held, m.epoch = true, 0
		return true
	}
	if r.aborting {
		return true
	}
	m.fresh(r)
	r.point("TryLock")
	if m.held {
		r.event(&m.h, 0x12)
		return false
	}
	m.held = true
	m.owner = r.cur
	r.event(&m.h, 0x10)
	raceAcquire(m)
	return true
}

//go:norace
func (m *Mutex) Unlock() {
	r := rt
	if r == nil {
		m.held = false
		return
	}
	if r.aborting {
		return
	}
	m.fresh(r)
	if !m.held {
		panic("sync: unlock of unlocked mutex")
	}
	raceRelease(m)
	m.held = false
	m.owner = nil
	r.event(&m.h, 0x11)
	for _, w := range m.waiters {
		r.ready(w)
	}
	m.waiters = m.waiters[:0]
	if r.cfg.UnlockPoints {
		r.point("after Mutex.Unlock")
	}
}

// Locker mirrors sync.Locker.
type Locker interface {
	Lock()
	Unlock()
}

// RWMutex is the drop-in for sync.RWMutex (writer preference as in the real one: a pending writer
// blocks new readers).
type RWMutex struct {
	h        H
	epoch    uint64
	writer   bool
	readers  int
	wwaiting int
	waiters  []*Thread
	rsync    byte
}

//go:norace
func (m *RWMutex) fresh(r *Runtime) {
	if m.epoch != r.epoch {
		*m = RWMutex{epoch: r.epoch}
	}
}

//go:norace
func (m *RWMutex) wakeAll(r *Runtime) {
	for _, w := range m.waiters {
		r.ready(w)
	}
	m.waiters = m.waiters[:0]
}

//go:norace
func (m *RWMutex) Lock() {
	r := rt
	if r == nil {
		m.writer = true
		return
	}
	if r.aborting {
		return
	}
	m.fresh(r)
	r.point("RWMutex.Lock")
	m.wwaiting++
	for m.writer || m.readers > 0 {
		m.waiters = append(m.waiters, r.cur)
		r.block("rwmutex(w)")
	}
	m.wwaiting--
	m.writer = true
	r.event(&m.h, 0x20)
	raceAcquire(m)
	raceAcquire(&m.rsync)
}

//go:norace
func (m *RWMutex) Unlock() {
	r := rt
	if r == nil {
		m.writer = false
		return
	}
	if r.aborting {
		return
	}
	m.fresh(r)
	if !m.writer {
		panic("sync: Unlock of unlocked RWMutex")
	}
	raceRelease(m)
	m.writer = false
	r.event(&m.h, 0x21)
	m.wakeAll(r)
}

//go:norace
func (m *RWMutex) RLock() {
	r := rt
	if r == nil {
		m.readers++
		return
	}
	if r.aborting {
		return
	}
	m.fresh(r)
	r.point("RLock")
	for m.writer || m.wwaiting > 0 {
		m.waiters = append(m.waiters, r.cur)
		r.block("rwmutex(r)")
	}
	m.readers++
	r.event(&m.h, 0x22)
	raceAcquire(m)
}

//go:norace
func (m *RWMutex) RUnlock() {
	r := rt
	if r == nil {
		m.readers--
		return
	}
	if r.aborting {
		return
	}
	m.fresh(r)
	if m.readers <= 0 {
		panic("sync: RUnlock of unlocked RWMutex")
	}
	raceReleaseMerge(&m.rsync)
	m.readers--
	r.event(&m.h, 0x23)
	if m.readers == 0 {
		m.wakeAll(r)
	}
}

//go:norace
func (m *RWMutex) TryLock() bool {
	r := rt
	if r == nil || r.aborting {
		return true
	}
	m.fresh(r)
	r.point("RWMutex.TryLock")
	if m.writer || m.readers > 0 {
		r.event(&m.h, 0x24)
		return false
	}
	m.writer = true
	r.event(&m.h, 0x20)
	raceAcquire(m)
	raceAcquire(&m.rsync)
	return true
}

//go:norace
func (m *RWMutex) TryRLock() bool {
	r := rt
	if r == nil || r.aborting {
		return true
	}
	m.fresh(r)
	r.point("RWMutex.TryRLock")
	if m.writer || m.wwaiting > 0 {
		r.event(&m.h, 0x24)
		return false
	}
	m.readers++
	r.event(&m.h, 0x22)
	raceAcquire(m)
	return true
}

//go:norace
func (m *RWMutex) RLocker() Locker { return (*rlocker)(m) }

type rlocker RWMutex

//go:norace
func (r *rlocker) Lock() { (*RWMutex)(r).RLock() }

//go:norace
func (r *rlocker) Unlock() { (*RWMutex)(r).RUnlock() }

// Once is the drop-in for sync.Once.
type Once struct {
	h       H
	epoch   uint64
	state   uint8 // 0 new, 1 running, 2 done
	waiters []*Thread
}

//go:norace
func (o *Once) Do(f func()) {
	r := rt
	if r == nil {
		if o.state == 0 {
			o.state = 2
			f()
		}
		return
	}
	if r.aborting {
		return
	}
	if o.epoch != r.epoch && o.state != 2 {
		o.epoch = r.epoch
		o.state = 0
		o.waiters = nil
	}
	r.point("Once.Do")
	for o.state == 1 {
		o.waiters = append(o.waiters, r.cur)
		r.block("once")
	}
	if o.state == 2 {
		r.event(&o.h, 0x31)
		raceAcquire(o)
		return
	}
	o.state = 1
	r.event(&o.h, 0x30)
	defer func() {
		raceRelease(o)
		o.state = 2
		if rt == r && !r.aborting {
			r.event(&o.h, 0x32)
			for _, w := range o.waiters {
				r.ready(w)
			}
		}
		o.waiters = nil
	}()
	f()
}

// WaitGroup is the drop-in for sync.WaitGroup.
type WaitGroup struct {
	h       H
	n       int
	waiters []*Thread
}

//go:norace
func (wg *WaitGroup) Add(delta int) {
	r := rt
	if r != nil && !r.aborting {
		r.point("WaitGroup.Add")
	}
	raceReleaseMerge(wg)
	if r != nil && !r.aborting {
		r.event(&wg.h, 0x40)
	}
	wg.n += delta
	if wg.n < 0 {
		panic("sync: negative WaitGroup counter")
	}
	if wg.n == 0 && r != nil && !r.aborting {
		for _, w := range wg.waiters {
			r.ready(w)
		}
		wg.waiters = wg.waiters[:0]
	}
}

//go:norace
func (wg *WaitGroup) Done() { wg.Add(-1) }

//go:norace
func (wg *WaitGroup) Wait() {
	r := rt
	if r == nil || r.aborting {
		return
	}
	r.point("WaitGroup.Wait")
	for wg.n > 0 {
		wg.waiters = append(wg.waiters, r.cur)
		r.block("waitgroup")
	}
	r.event(&wg.h, 0x41)
	raceAcquire(wg)
}

//go:norace
func (wg *WaitGroup) Go(f func()) {
	wg.Add(1)
	Go("wg.Go", func() {
		defer wg.Done()
		f()
	})
}

// Cond is the drop-in for sync.Cond.
type Cond struct {
	h       H
	L       Locker
	waiters []*Thread
}

//go:norace
func NewCond(l Locker) *Cond { return &Cond{L: l} }

//go:norace
func (c *Cond) Wait() {
	r := rt
	if r == nil || r.aborting {
		return
	}
	c.waiters = append(c.waiters, r.cur)
	r.event(&c.h, 0x50)
	c.L.Unlock()
	r.block("cond")
	raceAcquire(c)
	c.L.Lock()
}

//go:norace
func (c *Cond) Signal() {
	r := rt
	if r == nil || r.aborting {
		return
	}
	r.point("Cond.Signal")
	raceReleaseMerge(c)
	r.event(&c.h, 0x51)
	if len(c.waiters) > 0 {
		absorb(c.waiters[0], c.h)
		r.ready(c.waiters[0])
		c.waiters = c.waiters[1:]
	}
}

//go:norace
func (c *Cond) Broadcast() {
	r := rt
	if r == nil || r.aborting {
		return
	}
	r.point("Cond.Broadcast")
	raceReleaseMerge(c)
	r.event(&c.h, 0x52)
	for _, w := range c.waiters {
		absorb(w, c.h)
		r.ready(w)
	}
	c.waiters = nil
}

// ---------------------------------------------------------------------------------------------
// Pool with the buffer sanitizer (DESIGN.md 3.6)

// PoolMode selects the sanitizer behaviour for []byte items for the executions that follow.
type PoolMode int

const (
	PoolPlain      PoolMode = iota // deterministic LIFO, ownership tracking only
	PoolEager                      // LIFO reuse, poison on Put, verify on Get and at the end
	PoolQuarantine                 // recycled buffers are never handed out again; verified at the end
)

var (
	poolMode    PoolMode
	poolEpoch   uint64
	poolState   ptab[*bufState]
	poolStats   PoolStats
	poolAllList []*bufState
	poolInit    bool
)

type bufState struct {
	b      []byte
	pooled bool
	pool   *Pool
}

// PoolStats counts sanitizer events of the current execution.
type PoolStats struct {
	Gets, Puts, News int
	Outstanding      int // acquired and not yet recycled
}

const poison = 0xDB

// SetPoolMode selects the mode (call at the beginning of an execution).
//
//go:norace
func SetPoolMode(m PoolMode) { poolMode = m }

// GetPoolStats returns the statistics of the current execution.
//
//go:norace
func GetPoolStats() PoolStats { return poolStats }

var poolGen uint64

// ResetPools forgets all pool bookkeeping and free lists. For harness code that enumerates outside an execution
// (no epoch changes there) and drops objects that still hold pooled buffers: without it the ownership table
// keeps every buffer ever handed out alive.
//
//go:norace
func ResetPools() {
	if Active() {
		return
	}
	poolGen++
	poolInit = false
}

//go:norace
func poolFresh() {
	e := Epoch()
	if poolEpoch != e || !poolInit {
		poolEpoch = e
		poolInit = true
		poolState.reset()
		poolStats = PoolStats{}
		poolAllList = poolAllList[:0]
	}
}

// Pool is the drop-in for sync.Pool: a deterministic LIFO free list.
type Pool struct {
	h     H
	New   func() any
	items []any
	epoch uint64
	gen   uint64
	bcap  int
}

//go:norace
func bufKey(b []byte) *byte {
	if cap(b) == 0 {
		return nil
	}
	return unsafe.SliceData(b)
}

//go:norace
func (p *Pool) fresh() {
	if e := Epoch(); p.epoch != e || p.gen != poolGen {
		p.epoch = e
		p.gen = poolGen
		p.items = nil
		p.h = H{}
	}
	// with reuse enabled the free-list order is shared state: chain the operation (no scheduling point)
	if poolMode != PoolQuarantine && Active() {
		rt.event(&p.h, 0x70)
	}
}

//go:norace
func (p *Pool) Get() any {
	p.fresh()
	poolFresh()
	poolStats.Gets++
	if n := len(p.items); n > 0 && poolMode != PoolQuarantine {
		x := p.items[n-1]
		p.items[n-1] = nil
		p.items = p.items[:n-1]
		if b, ok := x.([]byte); ok && cap(b) > 0 {
			k := bufKey(b)
			raceAcquire(k)
			if st, _ := poolState.get(uintptr(unsafe.Pointer(k))); st != nil {
				if poolMode == PoolEager && Active() {
					full := b[:cap(b)]
					for i, c := range full {
						if c != poison {
							Fail("pool: write after recycle (buffer byte %d modified while in pool)", i)
						}
					}
				}
				st.pooled = false
				poolStats.Outstanding++
			}
		}
		return x
	}
	if p.New == nil {
		return nil
	}
	x := p.New()
	poolStats.News++
	// ownership is tracked inside executions only: plain enumerations outside an execution never change epoch, the
	// table would keep every buffer ever handed out alive
	if b, ok := x.([]byte); ok && cap(b) > 0 && Active() {
		if p.bcap == 0 {
			p.bcap = cap(b)
		}
		st := &bufState{b: b[:cap(b)], pool: p}
		poolState.put(uintptr(unsafe.Pointer(bufKey(b))), st)
		poolAllList = append(poolAllList, st)
		poolStats.Outstanding++
	}
	return x
}

//go:norace
func (p *Pool) Put(x any) {
	p.fresh()
	poolFresh()
	poolStats.Puts++
	if x == nil {
		return
	}
	if b, ok := x.([]byte); ok && cap(b) > 0 && Active() {
		k := bufKey(b)
		st, _ := poolState.get(uintptr(unsafe.Pointer(k)))
		if st == nil {
			// a buffer the pool did not hand out: admitted only if it has the pool's buffer size
			if p.bcap == 0 && p.New != nil {
				if nb, ok := p.New().([]byte); ok {
					p.bcap = cap(nb)
				}
			}
			if p.bcap != 0 && cap(b) != p.bcap {
				Fail("pool: foreign buffer admitted (cap %d, pool buffers have cap %d)", cap(b), p.bcap)
			}
			st = &bufState{b: b[:cap(b)], pool: p}
			poolState.put(uintptr(unsafe.Pointer(k)), st)
			poolAllList = append(poolAllList, st)
			poolStats.Outstanding++
		}
		if st.pooled {
			Fail("pool: double recycle of one buffer")
		}
		if cap(b) != len(st.b) {
			Fail("pool: buffer recycled with a different capacity (%d, acquired with %d)", cap(b), len(st.b))
		}
		st.pooled = true
		poolStats.Outstanding--
		if poolMode != PoolPlain {
			full := b[:cap(b)]
			for i := range full {
				full[i] = poison
			}
		}
		raceRelease(k)
		if poolMode == PoolQuarantine {
			return
		}
	}
	if !Active() && len(p.items) >= 4096 {
		return // plain enumerations that copy objects recycle more buffers than they acquire: do not hoard them
	}
	p.items = append(p.items, x)
}

// PoolVerify checks that every recycled buffer still holds the poison pattern (write-after-recycle).
// It returns a description of the first problem, or "".
//
//go:norace
func PoolVerify() string {
	poolFresh()
	if poolMode == PoolPlain {
		return ""
	}
	for _, st := range poolAllList {
		if !st.pooled {
			continue
		}
		for i, c := range st.b {
			if c != poison {
				return fmt.Sprintf("pool: write after recycle (byte %d of a recycled buffer is %#x)", i, c)
			}
		}
	}
	return ""
}
