package wire

import (
	"crypto/aes"
	"crypto/cipher"
	"crypto/des"
	"crypto/sha1"
	"encoding/binary"
	"fmt"
	"hash/crc32"

	"github.com/klauspost/reedsolomon"
	"github.com/tjfoc/gmsm/sm4"
	"golang.org/x/crypto/blowfish"
	"golang.org/x/crypto/cast5"
	"golang.org/x/crypto/pbkdf2"
	"golang.org/x/crypto/salsa20"
	"golang.org/x/crypto/tea"
	"golang.org/x/crypto/twofish"
	"golang.org/x/crypto/xtea"
)

// Frame layout (README "Specification", wireshark/kcp_dissector.lua):
//
//	non-AEAD cipher:  | nonce 16 | crc32 4 (LE, IEEE, over everything after it) | body |   all encrypted
//	AEAD (AES-GCM):   | nonce 12 | ciphertext of body + 16-byte tag |
//	no cipher:        | body |
//	body with FEC:    | seqid u32 LE | type u16 LE (0xF1 data, 0xF2 parity, 0xF3 OOB) | rest |
//	  data:   rest = | size u16 LE = len(payload)+2 | payload = KCP segments |
//	  parity: rest = Reed-Solomon parity over the zero-padded (size|payload) of the group's data packets
//	  OOB:    rest = | size u16 LE | conv u32 LE | out-of-band payload |, seqid 0xFFFFFFFF
//	body without FEC: KCP segments
//
// Block ciphers run in full-block CFB with the fixed IV documented in crypt.go; salsa20 takes the first 8
// bytes as nonce (left in clear); xor uses a pbkdf2-sha1 table with the documented salt.

const (
	TypeData   = 0xF1
	TypeParity = 0xF2
	TypeOOB    = 0xF3
	NonceSize  = 16
	CRCSize    = 4
)

var fixedIV = []byte{167, 115, 79, 156, 18, 172, 27, 1, 164, 21, 242, 193, 252, 120, 230, 107}

// Config describes how a session frames its datagrams.
type Config struct {
	Cipher       string // "", aes, tea, xtea, blowfish, cast5, 3des, twofish, sm4, salsa20, xor, none, aes-gcm
	Key          []byte
	DataShards   int // 0 = no FEC
	ParityShards int
}

func (c Config) FEC() bool { return c.DataShards > 0 && c.ParityShards > 0 }

// Frame is a decoded datagram.
type Frame struct {
	Nonce    []byte
	Plain    []byte // body after decryption and integrity check
	HasFEC   bool
	Seqid    uint32
	Type     uint16
	Size     uint16 // size field of data / OOB packets
	Payload  []byte // KCP payload (data packets, or whole body without FEC)
	Segs     []Seg
	Parity   []byte // parity bytes
	OOBConv  uint32
	OOB      []byte
	RSInput  []byte // size|payload of a data packet: what Reed-Solomon protects
	Overhead int    // bytes of cipher header/tag
}

var (
	blockCache = map[string]cipher.Block{}
	xorCache   = map[string][]byte{}
	gcmCache   = map[string]cipher.AEAD{}
)

func block(name string, key []byte) (cipher.Block, error) {
	ck := name + "|" + string(key)
	if b, ok := blockCache[ck]; ok {
		return b, nil
	}
	b, err := newBlock(name, key)
	if err == nil {
		blockCache[ck] = b
	}
	return b, err
}

func newBlock(name string, key []byte) (cipher.Block, error) {
	switch name {
	case "aes":
		return aes.NewCipher(key)
	case "tea":
		return tea.NewCipherWithRounds(key, 16)
	case "xtea":
		return xtea.NewCipher(key)
	case "blowfish":
		return blowfish.NewCipher(key)
	case "cast5":
		return cast5.NewCipher(key)
	case "3des":
		return des.NewTripleDESCipher(key)
	case "twofish":
		return twofish.NewCipher(key)
	case "sm4":
		return sm4.NewCipher(key)
	}
	return nil, fmt.Errorf("unknown block cipher %q", name)
}

// Decrypt removes the cipher layer and verifies integrity. ok=false means the integrity check failed
// (or the datagram is too short to carry one).
func Decrypt(c Config, dg []byte) (body, nonce []byte, overhead int, ok bool, err error) {
	switch c.Cipher {
	case "":
		return dg, nil, 0, true, nil
	case "aes-gcm":
		g, ok := gcmCache[string(c.Key)]
		if !ok {
			b, e := aes.NewCipher(c.Key)
			if e != nil {
				return nil, nil, 0, false, e
			}
			g, e = cipher.NewGCM(b)
			if e != nil {
				return nil, nil, 0, false, e
			}
			gcmCache[string(c.Key)] = g
		}
		ns := g.NonceSize()
		if len(dg) < ns+g.Overhead() {
			return nil, nil, 0, false, nil
		}
		pt, e := g.Open(nil, dg[:ns], dg[ns:], nil)
		if e != nil {
			return nil, nil, 0, false, nil
		}
		return pt, dg[:ns], ns + g.Overhead(), true, nil
	}
	if len(dg) < NonceSize+CRCSize {
		return nil, nil, 0, false, nil
	}
	pt := make([]byte, len(dg))
	switch c.Cipher {
	case "none":
		copy(pt, dg)
	case "xor":
		tbl, ok := xorCache[string(c.Key)]
		if !ok {
			tbl = pbkdf2.Key(c.Key, []byte(`sH3CIVoF#rWLtJo6`), 32, 1500, sha1.New)
			xorCache[string(c.Key)] = tbl
		}
		for i := range dg {
			pt[i] = dg[i] ^ tbl[i]
		}
	case "salsa20":
		var k [32]byte
		copy(k[:], c.Key)
		copy(pt[:8], dg[:8])
		salsa20.XORKeyStream(pt[8:], dg[8:], dg[:8], &k)
	default:
		b, e := block(c.Cipher, c.Key)
		if e != nil {
			return nil, nil, 0, false, e
		}
		cipher.NewCFBDecrypter(b, fixedIV[:b.BlockSize()]).XORKeyStream(pt, dg)
	}
	sum := binary.LittleEndian.Uint32(pt[NonceSize:])
	if crc32.ChecksumIEEE(pt[NonceSize+CRCSize:]) != sum {
		return nil, nil, 0, false, nil
	}
	return pt[NonceSize+CRCSize:], pt[:NonceSize], NonceSize + CRCSize, true, nil
}

// Decode decodes one datagram completely.
func Decode(c Config, dg []byte) (*Frame, error) {
	body, nonce, ov, ok, err := Decrypt(c, dg)
	if err != nil {
		return nil, err
	}
	if !ok {
		return nil, fmt.Errorf("integrity check failed (or datagram too short: %d bytes)", len(dg))
	}
	f := &Frame{Nonce: nonce, Plain: body, Overhead: ov}
	if !c.FEC() {
		f.Payload = body
		f.Segs, err = ParseSegments(body)
		return f, err
	}
	if len(body) < 6 {
		return f, fmt.Errorf("FEC body of %d bytes", len(body))
	}
	f.HasFEC = true
	f.Seqid = binary.LittleEndian.Uint32(body)
	f.Type = binary.LittleEndian.Uint16(body[4:])
	rest := body[6:]
	switch f.Type {
	case TypeData, TypeOOB:
		if len(rest) < 2 {
			return f, fmt.Errorf("FEC packet without size field")
		}
		f.Size = binary.LittleEndian.Uint16(rest)
		if int(f.Size) != len(rest) {
			return f, fmt.Errorf("FEC size field %d, but %d bytes follow the FEC header (size must be payload+2)", f.Size, len(rest))
		}
		f.RSInput = rest
		if f.Type == TypeOOB {
			if f.Seqid != 0xFFFFFFFF {
				return f, fmt.Errorf("OOB packet with seqid %d", f.Seqid)
			}
			if len(rest) < 6 {
				return f, fmt.Errorf("OOB packet without conversation id")
			}
			f.OOBConv = binary.LittleEndian.Uint32(rest[2:])
			f.OOB = rest[6:]
			return f, nil
		}
		f.Payload = rest[2:]
		f.Segs, err = ParseSegments(f.Payload)
		return f, err
	case TypeParity:
		f.Parity = rest
		return f, nil
	}
	return f, fmt.Errorf("unknown FEC type %#x", f.Type)
}

// VerifyGroup checks that parity is the Reed-Solomon code of the group's zero-padded size-prefixed
// payloads. data holds the d RSInput slices in seqid order, parity the p parity slices.
func VerifyGroup(d, p int, data, parity [][]byte) error {
	enc, err := reedsolomon.New(d, p)
	if err != nil {
		return err
	}
	if len(data) != d || len(parity) != p {
		return fmt.Errorf("group has %d data and %d parity packets, want %d/%d", len(data), len(parity), d, p)
	}
	max := 0
	for _, x := range data {
		if len(x) > max {
			max = len(x)
		}
	}
	shards := make([][]byte, d+p)
	for i, x := range data {
		shards[i] = make([]byte, max)
		copy(shards[i], x)
	}
	for i, x := range parity {
		if len(x) != max {
			return fmt.Errorf("parity %d has %d bytes, longest data packet of the group has %d", i, len(x), max)
		}
		shards[d+i] = x
	}
	ok, err := enc.Verify(shards)
	if err != nil {
		return err
	}
	if !ok {
		return fmt.Errorf("parity does not verify against the group's data")
	}
	return nil
}
