// Package wire is an independent decoder of kcp-go datagrams, written from README.md ("Specification")
// and wireshark/kcp_dissector.lua only. It imports nothing from the kcp package.
package wire

import (
	"encoding/binary"
	"fmt"
)

// KCP segment header (24 bytes, little endian):
//
//	conv u32 | cmd u8 | frg u8 | wnd u16 | ts u32 | sn u32 | una u32 | len u32 | data[len]
const (
	Overhead = 24
	CmdPush  = 81
	CmdAck   = 82
	CmdWask  = 83
	CmdWins  = 84
)

// Seg is one decoded KCP segment.
type Seg struct {
	Conv uint32
	Cmd  uint8
	Frg  uint8
	Wnd  uint16
	Ts   uint32
	Sn   uint32
	Una  uint32
	Data []byte
}

func (s Seg) String() string {
	name := map[uint8]string{CmdPush: "PUSH", CmdAck: "ACK", CmdWask: "WASK", CmdWins: "WINS"}[s.Cmd]
	return fmt.Sprintf("%s sn=%d una=%d wnd=%d ts=%d frg=%d len=%d", name, s.Sn, s.Una, s.Wnd, s.Ts, s.Frg, len(s.Data))
}

// ParseSegments decodes a KCP payload completely: one or more headers each followed by exactly len
// bytes, no trailing bytes, cmd in 81..84.
func ParseSegments(b []byte) ([]Seg, error) {
	var out []Seg
	if len(b) == 0 {
		return nil, fmt.Errorf("empty KCP payload")
	}
	for len(b) > 0 {
		if len(b) < Overhead {
			return out, fmt.Errorf("%d trailing bytes (shorter than a header)", len(b))
		}
		s := Seg{
			Conv: binary.LittleEndian.Uint32(b[0:]),
			Cmd:  b[4],
			Frg:  b[5],
			Wnd:  binary.LittleEndian.Uint16(b[6:]),
			Ts:   binary.LittleEndian.Uint32(b[8:]),
			Sn:   binary.LittleEndian.Uint32(b[12:]),
			Una:  binary.LittleEndian.Uint32(b[16:]),
		}
		n := binary.LittleEndian.Uint32(b[20:])
		b = b[Overhead:]
		if uint64(n) > uint64(len(b)) {
			return out, fmt.Errorf("segment sn=%d announces %d bytes, %d left", s.Sn, n, len(b))
		}
		if s.Cmd < CmdPush || s.Cmd > CmdWins {
			return out, fmt.Errorf("unknown cmd %d", s.Cmd)
		}
		if s.Cmd != CmdPush && n != 0 {
			return out, fmt.Errorf("cmd %d carries %d data bytes", s.Cmd, n)
		}
		s.Data = b[:n:n]
		b = b[n:]
		out = append(out, s)
	}
	return out, nil
}

// EncodeSegment builds one segment (used to forge packets in adversarial harnesses).
func EncodeSegment(s Seg, declaredLen int) []byte {
	b := make([]byte, Overhead+len(s.Data))
	binary.LittleEndian.PutUint32(b[0:], s.Conv)
	b[4], b[5] = s.Cmd, s.Frg
	binary.LittleEndian.PutUint16(b[6:], s.Wnd)
	binary.LittleEndian.PutUint32(b[8:], s.Ts)
	binary.LittleEndian.PutUint32(b[12:], s.Sn)
	binary.LittleEndian.PutUint32(b[16:], s.Una)
	if declaredLen < 0 {
		declaredLen = len(s.Data)
	}
	binary.LittleEndian.PutUint32(b[20:], uint32(declaredLen))
	copy(b[Overhead:], s.Data)
	return b
}
