module verif

go 1.24.0

require golang.org/x/tools v0.29.0

require (
	github.com/klauspost/cpuid/v2 v2.2.6 // indirect
	github.com/klauspost/reedsolomon v1.12.0
	github.com/pkg/errors v0.9.1 // indirect
	github.com/tjfoc/gmsm v1.4.1
	github.com/xtaci/kcp-go/v5 v5.0.0-00010101000000-000000000000
	golang.org/x/crypto v0.45.0
	golang.org/x/net v0.47.0 // indirect
	golang.org/x/sys v0.38.0 // indirect
	golang.org/x/time v0.14.0 // indirect
)

replace github.com/xtaci/kcp-go/v5 => /repo
