module verif

go 1.24.0

require golang.org/x/tools v0.29.0

require github.com/xtaci/kcp-go/v5 v5.0.0-00010101000000-000000000000 // indirect

replace github.com/xtaci/kcp-go/v5 => /repo
