package explore

import (
	"fmt"
	"testing"
	"time"

	"verif/vrt"
)

func cfg(e *Exec) vrt.Config {
	return vrt.Config{Chooser: e, PreemptCost: 1, SwitchCost: 0, SelectCost: 0, TimerEarlyCost: -1}
}

// lost update: two threads do a non-atomic increment with a scheduling point in the middle
func TestLostUpdate(t *testing.T) {
	run := func(e *Exec) Verdict {
		x := 0
		out := vrt.Run(cfg(e), func() {
			var wg vrt.WaitGroup
			wg.Add(2)
			for i := 0; i < 2; i++ {
				vrt.Go("inc", func() {
					defer wg.Done()
					v := x
					vrt.Yield()
					x = v + 1
				})
			}
			wg.Wait()
		})
		v := Verdict{Outcome: fmt.Sprintf("%s x=%d", out.Status, x)}
		if x != 2 {
			v.Violation = "lost update"
			v.Signature = "lost"
		}
		return v
	}
	for bound := 0; bound <= 2; bound++ {
		st := NewStats()
		Explore(run, Options{Bound: bound, KeepGoing: true}, st)
		t.Logf("bound %d: execs=%d outcomes=%v viol=%d", bound, st.Executions, st.OutcomeList(), len(st.Violations))
		if bound == 0 && len(st.Violations) != 0 {
			t.Fatalf("bound 0 must not find it")
		}
		if bound >= 1 && len(st.Violations) != 1 {
			t.Fatalf("bound %d must find the lost update", bound)
		}
		if bound == 1 {
			e, v := Replay(run, st.Violations[0].Choices)
			if v.Violation == "" {
				t.Fatalf("replay did not reproduce: %v", e.Choices())
			}
		}
	}
}

func TestChanSelectTimer(t *testing.T) {
	run := func(e *Exec) Verdict {
		var got []string
		out := vrt.Run(cfg(e), func() {
			a := vrt.MakeChan[int](0)
			b := vrt.MakeChan[int](1)
			done := vrt.MakeChan[struct{}](0)
			vrt.Go("sender-a", func() { a.Send(1) })
			vrt.Go("sender-b", func() { b.Send(2) })
			vrt.Go("sel", func() {
				tm := vrt.NewTimer(50 * time.Millisecond)
				for i := 0; i < 3; i++ {
					var va, vb int
					var tv time.Time
					switch vrt.Select(false, a.RecvCase(&va, nil), b.RecvCase(&vb, nil), tm.C.RecvCase(&tv, nil)) {
					case 0:
						got = append(got, "a")
					case 1:
						got = append(got, "b")
					case 2:
						got = append(got, fmt.Sprintf("t@%v", tv.Sub(vrt.Epoch0)))
					}
				}
				done.Close()
			})
			done.Recv()
		})
		return Verdict{Outcome: fmt.Sprintf("%s %v", out.Status, got)}
	}
	st := NewStats()
	Explore(run, Options{Bound: 2, KeepGoing: true}, st)
	t.Logf("execs=%d outcomes=%v", st.Executions, st.OutcomeList())
	if len(st.Outcomes) < 2 {
		t.Fatalf("expected several outcomes")
	}
	// sharded exploration covers exactly the same number of executions
	var total int64
	for sh := 0; sh < 3; sh++ {
		s2 := NewStats()
		Explore(run, Options{Bound: 2, KeepGoing: true, Shard: sh, Of: 3}, s2)
		total += s2.Executions
	}
	if total != st.Executions {
		t.Fatalf("sharded %d != unsharded %d", total, st.Executions)
	}
}

func TestDeadlockAndPanic(t *testing.T) {
	e := &Exec{}
	out := vrt.Run(cfg(e), func() {
		c := vrt.MakeChan[int](0)
		c.Recv()
	})
	if out.Status != vrt.Quiescent {
		t.Fatalf("want quiescent, got %v", out.Status)
	}
	out = vrt.Run(cfg(&Exec{}), func() {
		var m vrt.Mutex
		m.Lock()
		defer m.Unlock()
		vrt.Go("p", func() { var s []int; _ = s[3] })
		vrt.Sleep(time.Second)
	})
	if out.Status != vrt.Panicked {
		t.Fatalf("want panicked, got %v %s", out.Status, out.Fail)
	}
	// many executions do not leak goroutines
	for i := 0; i < 2000; i++ {
		vrt.Run(cfg(&Exec{}), func() {
			c := vrt.MakeChan[int](0)
			vrt.Go("x", func() { c.Recv() })
			vrt.Go("y", func() { vrt.Sleep(time.Hour * 2) })
			vrt.Idle(time.Second)
		})
	}
}
