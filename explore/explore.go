// Package explore is the stateless depth-first explorer: it re-executes a harness under every choice
// sequence whose cumulative deviation cost stays within a bound, exactly once each.
//
// run(prefix) replays prefix (an out-of-range choice is a hard error) and then takes alternative 0 at
// every later choice point; every later point spawns the alternatives whose cost still fits the bound.
package explore

import (
	"fmt"
	"hash/fnv"
	"os"
	"sort"
	"strconv"
	"strings"
	"time"

	"verif/vrt"
)

// Point is one recorded choice point.
type Point struct {
	Kind   vrt.Kind
	N      int
	Chosen int
	Costs  []int8 // nil = all free (only kept for points after the replayed prefix)
	CCost  int8   // cost of the chosen alternative
	Label  string
}

// Exec is the chooser of one execution.
type Exec struct {
	Prefix []int
	Points []Point
	keep   bool // keep labels
	arena  []int8
	cache  *Cache
	cost   int
	Pruned bool
}

// Cache is the visited-state store of one exploration (state caching on happens-before fingerprints).
type Cache struct {
	seen   map[vrt.H]int8
	Hits   int64
	States int64
	max    int
}

func NewCache() *Cache { return &Cache{seen: map[vrt.H]int8{}, max: 30000000} }

// Visit implements vrt.Pruner: a state reached again with at least the deviation cost of an earlier
// visit has no unexplored futures and the execution is cut there. States on the replayed prefix are
// never cut (they are the path to the new branch).
//
//go:norace
func (e *Exec) Visit(key vrt.H) bool {
	if e.cache == nil || len(e.Points) < len(e.Prefix) {
		return true
	}
	c := int8(e.cost)
	if old, ok := e.cache.seen[key]; ok && old <= c {
		e.cache.Hits++
		e.Pruned = true
		return false
	}
	if len(e.cache.seen) < e.cache.max {
		if _, ok := e.cache.seen[key]; !ok {
			e.cache.States++
		}
		e.cache.seen[key] = c
	}
	return true
}

// Choose implements vrt.Chooser. It is called by whichever virtual thread holds the token.
//
//go:norace
func (e *Exec) Choose(kind vrt.Kind, n int, costs []int8, label string) int {
	c := 0
	i := len(e.Points)
	if i < len(e.Prefix) {
		c = e.Prefix[i]
		if c >= n {
			panic(fmt.Sprintf("explore: replay diverged at point %d: choice %d of %d (%s %s)", i, c, n, kind, label))
		}
	}
	p := Point{Kind: kind, N: n, Chosen: c}
	if costs != nil {
		p.CCost = costs[c]
		e.cost += int(costs[c])
		if i >= len(e.Prefix) {
			a := len(e.arena)
			for _, c := range costs { // no append(x, y...): runtime.slicecopy is race-instrumented
				e.arena = append(e.arena, c)
			}
			p.Costs = e.arena[a:len(e.arena):len(e.arena)]
		}
	}
	if e.keep {
		p.Label = label
	}
	e.Points = append(e.Points, p)
	return c
}

// Choices returns the full choice list of the execution (for replay files).
func (e *Exec) Choices() []int {
	out := make([]int, len(e.Points))
	for i, p := range e.Points {
		out[i] = p.Chosen
	}
	// trailing zeros are implied
	n := len(out)
	for n > 0 && out[n-1] == 0 {
		n--
	}
	return out[:n]
}

// Cost returns the total deviation cost of the execution.
func (e *Exec) Cost() int {
	c := 0
	for _, p := range e.Points {
		c += int(p.CCost)
	}
	return c
}

// Verdict of one execution, produced by the harness.
type Verdict struct {
	Pruned    bool   // the execution was cut by state caching: no verdict
	Violation string // "" = property held; otherwise the oracle clause that failed (human readable)
	Signature string // classification of the violation (harness parameters + failed clause), stable across schedules
	Outcome   string // short label of what happened (distinct outcomes are counted)
	StateHash uint64 // hash of the end state (distinct end states are counted)
	Detail    string // optional longer description for the replay file
	NonTriv   bool   // execution counts as non-trivial by the harness's stated rule
}

// RunFunc runs one execution under the given chooser.
type RunFunc func(e *Exec) Verdict

// Options of an exploration.
type Options struct {
	Bound      int       // maximal cumulative deviation cost
	Deadline   time.Time // internal deadline (zero = none)
	MaxExecs   int       // execution cap (0 = none)
	Shard, Of  int       // this process explores shard Shard of Of (Of<=1: everything)
	SplitLevel int       // tree level (number of non-default choices) at which subtrees are distributed; default 2
	KeepGoing  bool      // keep exploring after a violation
	Cache      bool      // prune on visited happens-before fingerprints (vrt harnesses)
	MaxViol    int       // stop after this many distinct violation signatures (default 8)
	OnExec     func(e *Exec, v Verdict)
}

// Violation found by an exploration.
type Violation struct {
	Signature string
	Message   string
	Detail    string
	Choices   []int
	Cost      int
	Count     int
}

// Stats of an exploration (mergeable across shards).
type Stats struct {
	Executions  int64
	Points      int64
	ByCost      map[int]int64
	Outcomes    map[string]int64
	EndStates   map[uint64]struct{}
	EndStatesN  int64 // number of distinct end states (after merge/cap)
	NonTrivial  int64
	Pruned      int64 // executions cut by state caching
	States      int64 // distinct (fingerprint, running thread) states visited
	MaxPoints   int
	Exhaustive  bool
	CapHit      string
	Violations  []*Violation
	Bound       int
	WallSeconds float64
}

func NewStats() *Stats {
	return &Stats{ByCost: map[int]int64{}, Outcomes: map[string]int64{}, EndStates: map[uint64]struct{}{}, Exhaustive: true}
}

const maxEndStates = 2000000

func (s *Stats) record(e *Exec, v Verdict) {
	s.Executions++
	s.Points += int64(len(e.Points))
	if len(e.Points) > s.MaxPoints {
		s.MaxPoints = len(e.Points)
	}
	s.ByCost[e.Cost()]++
	if len(s.Outcomes) < 4096 || s.Outcomes[v.Outcome] > 0 {
		s.Outcomes[v.Outcome]++
	}
	if len(s.EndStates) < maxEndStates {
		s.EndStates[v.StateHash] = struct{}{}
	}
	if v.NonTriv {
		s.NonTrivial++
	}
}

func (s *Stats) addViolation(e *Exec, v Verdict) *Violation {
	for _, x := range s.Violations {
		if x.Signature == v.Signature {
			x.Count++
			return nil
		}
	}
	nv := &Violation{Signature: v.Signature, Message: v.Violation, Detail: v.Detail, Choices: e.Choices(), Cost: e.Cost(), Count: 1}
	s.Violations = append(s.Violations, nv)
	return nv
}

// Merge adds o into s.
func (s *Stats) Merge(o *Stats) {
	s.Executions += o.Executions
	s.Points += o.Points
	s.NonTrivial += o.NonTrivial
	s.Pruned += o.Pruned
	s.States += o.States
	if o.MaxPoints > s.MaxPoints {
		s.MaxPoints = o.MaxPoints
	}
	for k, v := range o.ByCost {
		s.ByCost[k] += v
	}
	for k, v := range o.Outcomes {
		s.Outcomes[k] += v
	}
	for k := range o.EndStates {
		if len(s.EndStates) < maxEndStates {
			s.EndStates[k] = struct{}{}
		}
	}
	if !o.Exhaustive {
		s.Exhaustive = false
		if s.CapHit == "" {
			s.CapHit = o.CapHit
		}
	}
	for _, v := range o.Violations {
		found := false
		for _, x := range s.Violations {
			if x.Signature == v.Signature {
				x.Count += v.Count
				if v.Cost < x.Cost || (v.Cost == x.Cost && len(v.Choices) < len(x.Choices)) {
					x.Choices, x.Cost, x.Message, x.Detail = v.Choices, v.Cost, v.Message, v.Detail
				}
				found = true
			}
		}
		if !found {
			s.Violations = append(s.Violations, v)
		}
	}
	if o.WallSeconds > s.WallSeconds {
		s.WallSeconds = o.WallSeconds
	}
}

// OutcomeList returns the outcomes sorted by count.
func (s *Stats) OutcomeList() []string {
	type kv struct {
		k string
		v int64
	}
	var l []kv
	for k, v := range s.Outcomes {
		l = append(l, kv{k, v})
	}
	sort.Slice(l, func(i, j int) bool { return l[i].v > l[j].v || (l[i].v == l[j].v && l[i].k < l[j].k) })
	var out []string
	for _, x := range l {
		out = append(out, fmt.Sprintf("%s x%d", x.k, x.v))
	}
	return out
}

// Explore enumerates all executions of run within opt.Bound and folds them into st.
func Explore(run RunFunc, opt Options, st *Stats) {
	start := time.Now()
	if opt.SplitLevel == 0 {
		opt.SplitLevel = 2
	}
	if opt.MaxViol == 0 {
		opt.MaxViol = 8
	}
	st.Bound = opt.Bound
	var cache *Cache
	if opt.Cache {
		cache = NewCache()
	}
	// a pending node is its parent's choice list (shared by all children of that execution) cut after at points and
	// followed by alt; the prefix is only written out when the node is run, so the pending stack stays small
	type node struct {
		base  []int
		at    int
		alt   int
		root  bool
		cost  int
		level int
		owned bool // subtree owned by this shard
	}
	stack := []node{{root: true, owned: opt.Of <= 1}}
	splitCtr := 0
	// the point and cost buffers of an execution are dead once its children are pushed: the next execution reuses them
	var pointBuf []Point
	var arenaBuf []int8
	for len(stack) > 0 {
		nd := stack[len(stack)-1]
		stack = stack[:len(stack)-1]
		var prefix []int
		if !nd.root {
			prefix = make([]int, nd.at+1)
			copy(prefix, nd.base[:nd.at])
			prefix[nd.at] = nd.alt
		}
		if !opt.Deadline.IsZero() && time.Now().After(opt.Deadline) {
			st.Exhaustive = false
			st.CapHit = "internal deadline"
			break
		}
		if MemCapBytes > 0 && st.Executions&127 == 0 && overMemCap() {
			st.Exhaustive = false
			st.CapHit = fmt.Sprintf("memory cap (resident set above %d MB)", MemCapBytes>>20)
			break
		}
		if opt.MaxExecs > 0 && st.Executions >= int64(opt.MaxExecs) {
			st.Exhaustive = false
			st.CapHit = fmt.Sprintf("execution cap %d", opt.MaxExecs)
			break
		}
		e := &Exec{Prefix: prefix, cache: cache, Points: pointBuf[:0], arena: arenaBuf[:0]}
		v := run(e)
		pointBuf, arenaBuf = e.Points, e.arena
		if e.Pruned || v.Pruned {
			v.Pruned = true
		}
		if len(e.Points) < len(prefix) {
			panic(fmt.Sprintf("explore: replay diverged: execution ended after %d points, prefix has %d", len(e.Points), len(prefix)))
		}
		// nodes above the split level are executed by every shard but counted by shard 0 only
		count := nd.owned || opt.Shard == 0
		if count && v.Pruned {
			st.Pruned++
			st.Points += int64(len(e.Points))
		}
		if count && !v.Pruned {
			st.record(e, v)
			if opt.OnExec != nil {
				opt.OnExec(e, v)
			}
			if v.Violation != "" {
				st.addViolation(e, v)
				if !opt.KeepGoing || len(st.Violations) >= opt.MaxViol {
					st.Exhaustive = false
					st.CapHit = "stopped at violation"
					break
				}
			}
		}
		// children, pushed so that the shallowest deviation of the lowest alternative is explored first;
		// at the split level they are dealt round-robin to the shards (every shard sees the same order)
		split := !nd.owned && nd.level+1 == opt.SplitLevel
		var base []int
		for i := len(e.Points) - 1; i >= len(prefix); i-- {
			p := e.Points[i]
			for alt := p.N - 1; alt >= 1; alt-- {
				c := nd.cost
				if p.Costs != nil {
					c += int(p.Costs[alt])
				}
				if c > opt.Bound {
					continue
				}
				owned := nd.owned
				if split {
					mine := splitCtr%opt.Of == opt.Shard
					splitCtr++
					if !mine {
						continue
					}
					owned = true
				}
				if base == nil {
					base = make([]int, i)
					for k := range base {
						base[k] = e.Points[k].Chosen
					}
				}
				stack = append(stack, node{base: base, at: i, alt: alt, cost: c, level: nd.level + 1, owned: owned})
			}
		}
	}
	if cache != nil {
		st.States = cache.States
	}
	st.EndStatesN = int64(len(st.EndStates))
	st.WallSeconds = time.Since(start).Seconds()
}

// Replay runs a single execution with the given choice list.
func Replay(run RunFunc, choices []int) (*Exec, Verdict) {
	e := &Exec{Prefix: choices, keep: true}
	v := run(e)
	return e, v
}

// Hash64 hashes a byte string (FNV-1a).
func Hash64(b []byte) uint64 {
	h := fnv.New64a()
	h.Write(b)
	return h.Sum64()
}

// HashString hashes a string.
func HashString(s string) uint64 { return Hash64([]byte(s)) }

// MemCapBytes: when the process's resident set exceeds it, explorations stop gracefully and report the cap (0 = none).
var MemCapBytes int64

var memCapTripped bool

func overMemCap() bool {
	if memCapTripped {
		return true
	}
	b, err := os.ReadFile("/proc/self/statm")
	if err != nil {
		return false
	}
	f := strings.Fields(string(b))
	if len(f) < 2 {
		return false
	}
	pages, err := strconv.ParseInt(f[1], 10, 64)
	if err != nil {
		return false
	}
	if pages*int64(os.Getpagesize()) > MemCapBytes {
		memCapTripped = true
	}
	return memCapTripped
}
