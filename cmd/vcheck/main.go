// Command vcheck is the check orchestrator:
//
//	vcheck run <ID> [-tier quick|thorough]   transform /repo, build the worker, run 16 shards, aggregate,
//	                                         write evidence/<ID>.json, print VIOLATION / KNOWN-FINDING lines
//	vcheck replay <file>                     re-run one recorded execution with tracing
//	vcheck selftest                          primitive conformance / translation sanity (never a verdict)
//
// Exit codes: 0 property held on everything explored (known findings are reported, not failed);
// 1 violation; 3 tooling error (never accompanied by a VIOLATION line).
package main

import (
	"crypto/sha1"
	"encoding/json"
	"flag"
	"fmt"
	"os"
	"os/exec"
	"path/filepath"
	"sort"
	"strconv"
	"strings"
	"sync"
	"time"

	"verif/hx"
	"verif/vx"
)

const (
	verifDir = "/verif"
	repoDir  = "/repo"
)

type propInfo struct {
	Level     string
	Race      bool
	QuickS    int // per-shard time budget, seconds
	ThoroughS int
	Shards    int // 0 = 16
}

// per-property settings (level must match MANIFEST.json)
var props = map[string]propInfo{
	"C01": {Level: "fault_enumeration", QuickS: 60, ThoroughS: 600},
	"C02": {Level: "fault_enumeration", QuickS: 90, ThoroughS: 600},
	"C03": {Level: "fault_enumeration", QuickS: 60, ThoroughS: 600},
	"C04": {Level: "model_checking", QuickS: 60, ThoroughS: 600},
	"C05": {Level: "exploration", QuickS: 60, ThoroughS: 600},
	"C06": {Level: "fault_enumeration", QuickS: 60, ThoroughS: 600},
	"C07": {Level: "fault_enumeration", QuickS: 60, ThoroughS: 600},
	"C08": {Level: "exploration", QuickS: 60, ThoroughS: 600},
	"C09": {Level: "exploration", QuickS: 60, ThoroughS: 600},
	"C10": {Level: "exploration", QuickS: 80, ThoroughS: 600},
	"C11": {Level: "fault_enumeration", QuickS: 60, ThoroughS: 600},
	"C12": {Level: "exploration", QuickS: 60, ThoroughS: 600},
	"C13": {Level: "model_checking", QuickS: 60, ThoroughS: 600},
	"C14": {Level: "exploration", Race: true, QuickS: 100, ThoroughS: 600},
	"C15": {Level: "model_checking", QuickS: 60, ThoroughS: 600},
	"C16": {Level: "fault_enumeration", QuickS: 60, ThoroughS: 600},
	"C17": {Level: "model_checking", QuickS: 45, ThoroughS: 600},
	"C18": {Level: "fault_enumeration", QuickS: 60, ThoroughS: 600},
	"C19": {Level: "fault_enumeration", QuickS: 60, ThoroughS: 600},
	"C20": {Level: "model_checking", QuickS: 60, ThoroughS: 300},
}

// memCap is the resident-set size (bytes) at which a shard stops exploring (reported as a cap, exit 0): all shards together
// stay below three quarters of the machine's memory.
func memCap(shards int) int64 {
	b, err := os.ReadFile("/proc/meminfo")
	total := int64(16 << 30)
	if err == nil {
		for _, l := range strings.Split(string(b), "\n") {
			if strings.HasPrefix(l, "MemTotal:") {
				f := strings.Fields(l)
				if len(f) >= 2 {
					if kb, e := strconv.ParseInt(f[1], 10, 64); e == nil {
						total = kb * 1024
					}
				}
			}
		}
	}
	return total * 3 / 4 / int64(max(shards, 1))
}

func head(s string, n int) string {
	lines := strings.Split(s, "\n")
	if len(lines) > n {
		lines = lines[:n]
	}
	return strings.Join(lines, "\n")
}

func die(code int, format string, args ...any) {
	fmt.Fprintf(os.Stderr, "vcheck: "+format+"\n", args...)
	os.Exit(code)
}

func goBin() string {
	if g := os.Getenv("VERIF_GO"); g != "" {
		return g
	}
	return "go"
}

func goEnv() []string {
	env := os.Environ()
	env = append(env, "GOFLAGS=-mod=mod", "GOPROXY=off", "GOSUMDB=off", "GOTOOLCHAIN=local")
	return env
}

// buildWorker transforms the current working tree and builds the worker binary in scratch.
func buildWorker(scratch string, race bool) (string, *vx.Result) {
	src := filepath.Join(scratch, "src")
	if err := os.MkdirAll(src, 0o755); err != nil {
		die(3, "%v", err)
	}
	res, err := vx.Transform(goBin(), repoDir, src, filepath.Join(verifDir, "inpkg"), nil)
	if err != nil {
		die(3, "source transformation failed (tooling error, not a verdict): %v", err)
	}
	bin := filepath.Join(scratch, "vworker")
	args := []string{"build", "-overlay", res.Overlay, "-tags", "verif", "-o", bin}
	if race {
		args = append(args, "-race")
	}
	args = append(args, "./cmd/vworker")
	cmd := exec.Command(goBin(), args...)
	cmd.Dir = verifDir
	cmd.Env = goEnv()
	out, err := cmd.CombinedOutput()
	if err != nil {
		die(3, "building the worker failed (tooling error, not a verdict):\n%s", out)
	}
	return bin, res
}

type finding struct {
	Property  string `json:"property"`
	Signature string `json:"signature"`
	Status    string `json:"status"` // open | fixed
	Commit    string `json:"commit,omitempty"`
	What      string `json:"what"`
}

func loadFindings() []finding {
	b, err := os.ReadFile(filepath.Join(verifDir, "known_findings.json"))
	if err != nil {
		return nil
	}
	var f struct {
		Findings []finding `json:"findings"`
	}
	if err := json.Unmarshal(b, &f); err != nil {
		die(3, "known_findings.json: %v", err)
	}
	return f.Findings
}

func main() {
	if len(os.Args) < 2 {
		die(3, "usage: vcheck run <ID> [-tier quick|thorough] | replay <file> | selftest")
	}
	switch os.Args[1] {
	case "run":
		runCmd(os.Args[2:])
	case "replay":
		replayCmd(os.Args[2:])
	case "selftest":
		selftestCmd(os.Args[2:])
	default:
		die(3, "unknown command %q", os.Args[1])
	}
}

func mkScratch() string {
	base := os.Getenv("VERIF_SCRATCH")
	if base == "" {
		base = os.TempDir()
	}
	d, err := os.MkdirTemp(base, "vcheck-")
	if err != nil {
		die(3, "%v", err)
	}
	return d
}

func replayCmd(args []string) {
	if len(args) < 1 {
		die(3, "usage: vcheck replay <file>")
	}
	b, err := os.ReadFile(args[0])
	if err != nil {
		die(3, "%v", err)
	}
	var v hx.Violation
	if err := json.Unmarshal(b, &v); err != nil {
		die(3, "%v", err)
	}
	scratch := mkScratch()
	defer os.RemoveAll(scratch)
	bin, _ := buildWorker(scratch, props[v.Property].Race)
	cmd := exec.Command(bin, "-replay", args[0])
	cmd.Stdout, cmd.Stderr = os.Stdout, os.Stderr
	cmd.Env = append(os.Environ(), "GOMAXPROCS=1", "GORACE=halt_on_error=0")
	if err := cmd.Run(); err != nil {
		os.RemoveAll(scratch)
		die(3, "replay failed: %v", err)
	}
}

func runCmd(args []string) {
	if len(args) < 1 {
		die(3, "usage: vcheck run <ID> [-tier quick|thorough]")
	}
	id := args[0]
	fs := flag.NewFlagSet("run", flag.ExitOnError)
	tier := fs.String("tier", "", "quick|thorough")
	shards := fs.Int("shards", 0, "number of shards (default 16)")
	budget := fs.Int("budget", 0, "per-shard budget in seconds (default per property and tier)")
	unit := fs.String("unit", "", "only units with this prefix (debugging; evidence is still written)")
	keep := fs.Bool("keep", false, "keep the scratch directory")
	fs.Parse(args[1:])
	if *tier == "" {
		*tier = os.Getenv("VERIF_TIER")
	}
	if *tier != "thorough" {
		*tier = "quick"
	}
	pi, ok := props[id]
	if !ok {
		die(3, "unknown property %q", id)
	}
	seed := int64(0)
	if s := os.Getenv("VERIF_SEED"); s != "" {
		seed, _ = strconv.ParseInt(s, 10, 64)
	}
	n := *shards
	if n == 0 {
		n = pi.Shards
	}
	if n == 0 {
		n = 16
	}
	bs := pi.QuickS
	if *tier == "thorough" {
		bs = pi.ThoroughS
	}
	if *budget > 0 {
		bs = *budget
	}
	start := time.Now()
	scratch := mkScratch()
	if !*keep {
		defer os.RemoveAll(scratch)
	}
	bin, xres := buildWorker(scratch, pi.Race)
	buildS := time.Since(start).Seconds()

	outs := make([]*hx.ShardOut, n)
	errs := make([]string, n)
	var wg sync.WaitGroup
	for i := 0; i < n; i++ {
		wg.Add(1)
		go func(i int) {
			defer wg.Done()
			of := filepath.Join(scratch, fmt.Sprintf("out_%d.json", i))
			wargs := []string{"-prop", id, "-tier", *tier, "-shard", strconv.Itoa(i), "-of", strconv.Itoa(n), "-out", of,
				"-seed", strconv.FormatInt(seed, 10), "-budget", fmt.Sprintf("%ds", bs), "-memcap", strconv.FormatInt(memCap(n), 10)}
			if *unit != "" {
				wargs = append(wargs, "-unit", *unit)
			}
			// memory cap per shard (address space); the race detector needs a large virtual reservation
			sh := fmt.Sprintf("ulimit -v %d 2>/dev/null; exec \"$0\" \"$@\"", 12*1024*1024)
			if pi.Race {
				sh = "exec \"$0\" \"$@\""
			}
			cmd := exec.Command("sh", append([]string{"-c", sh, bin}, wargs...)...)
			cmd.Env = append(os.Environ(), "GOMAXPROCS=1")
			if pi.Race {
				rl := filepath.Join(scratch, fmt.Sprintf("race_%d", i))
				// throughput must not depend on what a page fault costs (on a freshly restored sandbox a first touch of memory has
				// been seen to cost two orders of magnitude more than on a warm one): ThreadSanitizer clears the shadow of large
				// objects with memset instead of remapping it, and the Go scavenger marks freed pages lazily (MADV_FREE) instead of
				// unmapping them, so the resident set is populated once and then stays mapped
				cmd.Env = append(cmd.Env, "GORACE=halt_on_error=0 exitcode=0 history_size=3 clear_shadow_mmap_threshold=1073741824 log_path="+rl, "VERIF_RACELOG="+rl,
					"GODEBUG=madvdontneed=0")
			}
			var so, se strings.Builder
			cmd.Stdout, cmd.Stderr = &so, &se
			done := make(chan error, 1)
			if err := cmd.Start(); err != nil {
				errs[i] = err.Error()
				return
			}
			go func() { done <- cmd.Wait() }()
			select {
			case err := <-done:
				if err != nil {
					errs[i] = fmt.Sprintf("shard %d: %v\n%s\n  [...]\n%s", i, err, head(se.String(), 12), tail(se.String(), 25))
					return
				}
			case <-time.After(time.Duration(bs)*time.Second*2 + 120*time.Second):
				cmd.Process.Kill()
				errs[i] = fmt.Sprintf("shard %d: did not honour its internal deadline; killed", i)
				return
			}
			b, err := os.ReadFile(of)
			if err != nil {
				errs[i] = fmt.Sprintf("shard %d: %v\n%s", i, err, tail(se.String(), 40))
				return
			}
			var o hx.ShardOut
			if err := json.Unmarshal(b, &o); err != nil {
				errs[i] = fmt.Sprintf("shard %d: %v", i, err)
				return
			}
			outs[i] = &o
		}(i)
	}
	wg.Wait()
	for _, e := range errs {
		if e != "" {
			die(3, "worker failure (tooling error, not a verdict):\n%s", e)
		}
	}
	for _, o := range outs {
		if o.ToolingError != "" {
			die(3, "tooling error reported by a worker (not a verdict): %s", o.ToolingError)
		}
	}
	aggregate(id, *tier, seed, pi, outs, xres, time.Since(start).Seconds(), buildS)
}

func tail(s string, n int) string {
	lines := strings.Split(strings.TrimRight(s, "\n"), "\n")
	if len(lines) > n {
		lines = lines[len(lines)-n:]
	}
	return strings.Join(lines, "\n")
}

func aggregate(id, tier string, seed int64, pi propInfo, outs []*hx.ShardOut, xres *vx.Result, wall, buildS float64) {
	units := map[string]*hx.Unit{}
	var order []string
	endStates := map[string]map[uint64]struct{}{}
	for _, o := range outs {
		for _, u := range o.Units {
			m := units[u.Name]
			if m == nil {
				cp := *u
				cp.EndStates = nil
				cp.ByCost = map[string]int64{}
				cp.Outcomes = map[string]int64{}
				cp.Violations = nil
				cp.Executions, cp.Points, cp.NonTrivial, cp.States, cp.Transitions, cp.EndStatesN, cp.Pruned = 0, 0, 0, 0, 0, 0, 0
				cp.Samples = nil
				cp.Exhaustive = true
				cp.WallS = 0
				m = &cp
				units[u.Name] = m
				order = append(order, u.Name)
				endStates[u.Name] = map[uint64]struct{}{}
			}
			m.Executions += u.Executions
			m.Pruned += u.Pruned
			m.Points += u.Points
			m.NonTrivial += u.NonTrivial
			m.Distinct += u.Distinct
			if u.Kind == "dfs" && u.Bound < m.Bound {
				m.Bound = u.Bound
			}
			m.States += u.States
			m.Transitions += u.Transitions
			if u.MaxPoints > m.MaxPoints {
				m.MaxPoints = u.MaxPoints
			}
			if u.Depth > m.Depth {
				m.Depth = u.Depth
			}
			for k, v := range u.ByCost {
				m.ByCost[k] += v
			}
			for k, v := range u.Outcomes {
				m.Outcomes[k] += v
			}
			if len(u.EndStates) > 0 {
				for _, h := range u.EndStates {
					endStates[u.Name][h] = struct{}{}
				}
			} else {
				m.EndStatesN += u.EndStatesN
			}
			if !u.Exhaustive {
				m.Exhaustive = false
				if m.CapHit == "" {
					m.CapHit = u.CapHit
				}
			}
			if u.WallS > m.WallS {
				m.WallS = u.WallS
			}
			for _, s := range u.Samples {
				if len(m.Samples) < 3 {
					m.Samples = append(m.Samples, s)
				}
			}
			for _, n := range u.Notes {
				dup := false
				for _, x := range m.Notes[:min(len(m.Notes), len(m.Notes))] {
					if x == n {
						dup = true
					}
				}
				if !dup && u != m {
					if len(m.Notes) < 6 {
						m.Notes = append(m.Notes, n)
					}
				}
			}
			for _, v := range u.Violations {
				found := false
				for _, x := range m.Violations {
					if x.Signature == v.Signature {
						x.Count += v.Count
						if v.Cost < x.Cost || (v.Cost == x.Cost && len(v.Choices) < len(x.Choices)) {
							cnt := x.Count
							*x = *v
							x.Count = cnt
						}
						found = true
					}
				}
				if !found {
					cp := *v
					m.Violations = append(m.Violations, &cp)
				}
			}
		}
	}
	for name, set := range endStates {
		if len(set) > 0 {
			units[name].EndStatesN = int64(len(set))
		}
	}
	// classification against the known-findings file
	findings := loadFindings()
	os.MkdirAll(filepath.Join(verifDir, "evidence", "replays"), 0o755)
	// remove stale replays of this property
	if old, _ := filepath.Glob(filepath.Join(verifDir, "evidence", "replays", id+"-*.json")); old != nil {
		for _, f := range old {
			os.Remove(f)
		}
	}
	var violLines, knownLines []string
	nviol := 0
	knownSeen := map[string]bool{}
	violSeen := map[string]bool{}
	for _, name := range order {
		u := units[name]
		for _, v := range u.Violations {
			known := false
			for _, f := range findings {
				if f.Property == id && f.Status == "open" && f.Signature == v.Signature {
					known = true
					if !knownSeen[f.Signature] {
						knownSeen[f.Signature] = true
						knownLines = append(knownLines, fmt.Sprintf("KNOWN-FINDING: property=%s %s — %s (observed in %d executions, unit %s)", id, f.Signature, f.What, v.Count, name))
					}
				}
			}
			if known || violSeen[v.Signature] {
				continue
			}
			violSeen[v.Signature] = true
			nviol++
			h := sha1.Sum([]byte(v.Signature))
			path := filepath.Join(verifDir, "evidence", "replays", fmt.Sprintf("%s-%x.json", id, h[:5]))
			b, _ := json.MarshalIndent(v, "", " ")
			os.WriteFile(path, b, 0o644)
			violLines = append(violLines, fmt.Sprintf("VIOLATION property=%s replay=%s", id, path))
			fmt.Printf("violation: unit=%s signature=%s\n  %s\n", name, v.Signature, strings.ReplaceAll(v.Message, "\n", "\n  "))
			if v.Detail != "" {
				fmt.Printf("  %s\n", strings.ReplaceAll(firstN(v.Detail, 1500), "\n", "\n  "))
			}
		}
	}
	// evidence
	var evals, nontriv, states, trans, points int64
	exhaustive := true
	var caps []string
	var samples []any
	unitList := []any{}
	for _, name := range order {
		u := units[name]
		evals += u.Executions
		nontriv += u.NonTrivial
		points += u.Points
		if u.States > 0 {
			states += u.States
			trans += u.Transitions
		} else {
			states += u.EndStatesN
			trans += u.Points + u.Executions
		}
		if !u.Exhaustive {
			exhaustive = false
			caps = append(caps, name+": "+u.CapHit)
		}
		for _, s := range u.Samples {
			if len(samples) < 5 {
				samples = append(samples, map[string]any{"unit": name, "case": s})
			}
		}
		outc := topOutcomes(u.Outcomes, 8)
		unitList = append(unitList, map[string]any{"unit": name, "params": u.Params, "kind": u.Kind, "completed_deviation_bound": u.Bound, "executions": u.Executions, "distinct_executions": u.Distinct,
			"pruned_by_state_cache": u.Pruned, "choice_points": u.Points, "max_points_per_execution": u.MaxPoints, "executions_by_deviation_cost": u.ByCost, "distinct_outcomes": len(u.Outcomes),
			"top_outcomes": outc, "distinct_end_states": u.EndStatesN, "nontrivial": u.NonTrivial, "states": u.States, "transitions": u.Transitions,
			"depth": u.Depth, "exhaustive": u.Exhaustive, "cap_hit": u.CapHit, "notes": u.Notes, "violation_signatures": sigs(u.Violations), "wall_s": round2(u.WallS)})
	}
	if len(samples) == 0 {
		samples = append(samples, "no executions")
	}
	rule, assumptions := "", []string{}
	for _, o := range outs {
		if o.Rule != "" {
			rule = o.Rule
		}
		for _, a := range o.Assumptions {
			dup := false
			for _, x := range assumptions {
				dup = dup || x == a
			}
			if !dup {
				assumptions = append(assumptions, a)
			}
		}
	}
	assumptions = append(assumptions,
		"trusted base: Go compiler/runtime, the vx source transformer (structural rewrites of go/chan/select/time/sync), fidelity of the vrt shims to sync/channels/timers (self-test), third-party libraries as shipped",
		"the check runs the real kcp-go sources from /repo's working tree (re-hosted on the virtual runtime), not a separate model")
	cov := map[string]any{
		"evaluations":                   evals,
		"distinct_nontrivial":           nontriv,
		"rule":                          rule,
		"samples":                       samples,
		"states":                        states,
		"transitions":                   trans,
		"traces_validated_against_impl": evals,
		"exhaustive":                    exhaustive,
		"caps_hit":                      caps,
		"units":                         unitList,
		"choice_points":                 points,
		"shards":                        len(outs),
		"explanation":                   "every explored trace is an execution of the implementation itself (no separate model), so traces_validated_against_impl equals evaluations; states = distinct end-state hashes (DFS units) or distinct abstract states (BFS units)",
		"transformer_census":            xres.Census,
		"known_findings_observed":       knownLines,
	}
	ev := map[string]any{
		"property_id": id, "tier": tier, "seed": seed, "level": pi.Level, "coverage": cov, "assumptions": assumptions,
		"wall_s": round2(wall), "violations": nviol, "build_s": round2(buildS),
	}
	b, _ := json.MarshalIndent(ev, "", " ")
	if err := os.WriteFile(filepath.Join(verifDir, "evidence", id+".json"), b, 0o644); err != nil {
		die(3, "%v", err)
	}
	fmt.Printf("%s %s: units=%d executions=%d nontrivial=%d states=%d transitions=%d exhaustive=%v wall=%.1fs (build %.1fs)\n",
		id, tier, len(order), evals, nontriv, states, trans, exhaustive, wall, buildS)
	for _, name := range order {
		u := units[name]
		fmt.Printf("  %-28s execs=%-9d pruned=%-9d states=%-8d outcomes=%-4d endstates=%-7d exhaustive=%v %s\n", name, u.Executions, u.Pruned, u.States, len(u.Outcomes), u.EndStatesN, u.Exhaustive, u.CapHit)
	}
	for _, f := range findings {
		if f.Property == id && f.Status == "open" && !knownSeen[f.Signature] {
			fmt.Printf("note: listed finding %s was not observed in this run (tier %s)\n", f.Signature, tier)
		}
	}
	for _, l := range knownLines {
		fmt.Println(l)
	}
	for _, l := range violLines {
		fmt.Println(l)
	}
	if nviol > 0 {
		os.Exit(1)
	}
}

func sigs(v []*hx.Violation) []string {
	var s []string
	for _, x := range v {
		s = append(s, x.Signature)
	}
	return s
}

func firstN(s string, n int) string {
	if len(s) > n {
		return s[:n] + " …"
	}
	return s
}

func round2(f float64) float64 { return float64(int(f*100)) / 100 }

func topOutcomes(m map[string]int64, n int) []string {
	type kv struct {
		k string
		v int64
	}
	var l []kv
	for k, v := range m {
		l = append(l, kv{k, v})
	}
	sort.Slice(l, func(i, j int) bool { return l[i].v > l[j].v || (l[i].v == l[j].v && l[i].k < l[j].k) })
	var out []string
	for i, x := range l {
		if i >= n {
			break
		}
		out = append(out, fmt.Sprintf("%s x%d", x.k, x.v))
	}
	return out
}

func selftestCmd(args []string) {
	scratch := mkScratch()
	defer os.RemoveAll(scratch)
	bin, _ := buildWorker(scratch, false)
	cmd := exec.Command(bin, "-prop", "SELFTEST", "-budget", "120s")
	cmd.Stdout, cmd.Stderr = os.Stdout, os.Stderr
	cmd.Env = append(os.Environ(), "GOMAXPROCS=1")
	if err := cmd.Run(); err != nil {
		os.RemoveAll(scratch)
		die(3, "selftest failed: %v", err)
	}
}
