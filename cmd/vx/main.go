// Command vx runs the source transformer: vx <repo> <outdir> [inpkgdir]
package main

import (
	"fmt"
	"os"

	"verif/vx"
)

func main() {
	if len(os.Args) < 3 {
		fmt.Fprintln(os.Stderr, "usage: vx <repo> <outdir> [inpkgdir]")
		os.Exit(3)
	}
	inpkg := ""
	if len(os.Args) > 3 {
		inpkg = os.Args[3]
	}
	if err := os.MkdirAll(os.Args[2], 0o755); err != nil {
		fmt.Fprintln(os.Stderr, err)
		os.Exit(3)
	}
	goBin := os.Getenv("VERIF_GO")
	if goBin == "" {
		goBin = "go"
	}
	res, err := vx.Transform(goBin, os.Args[1], os.Args[2], inpkg, nil)
	if err != nil {
		fmt.Fprintln(os.Stderr, "vx:", err)
		os.Exit(3)
	}
	fmt.Printf("%s\n%+v\n", res.Overlay, res.Census)
}
