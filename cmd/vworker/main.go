// Command vworker is the per-shard worker: it links the transformed kcp package (with the in-package
// harnesses injected through the build overlay) and runs one property's check on one shard.
package main

import (
	"encoding/json"
	"flag"
	"fmt"
	"os"
	"runtime"
	"runtime/debug"
	"runtime/pprof"
	"strconv"
	"time"

	_ "github.com/xtaci/kcp-go/v5"

	"verif/explore"
	"verif/hx"
	"verif/vrt"
)

func main() {
	prop := flag.String("prop", "", "property id")
	tier := flag.String("tier", "quick", "quick|thorough")
	shard := flag.Int("shard", 0, "shard index")
	of := flag.Int("of", 1, "number of shards")
	out := flag.String("out", "", "output file")
	seed := flag.Int64("seed", 0, "seed")
	budget := flag.Duration("budget", 60*time.Second, "time budget for the whole check in this shard")
	replay := flag.String("replay", "", "replay file")
	memcap := flag.Int64("memcap", 0, "resident-set size in bytes at which exploration stops gracefully (0 = none)")
	only := flag.String("unit", "", "only units with this name prefix")
	list := flag.Bool("list", false, "list registered checks")
	flag.Parse()
	if *list {
		for _, id := range hx.Registered() {
			fmt.Println(id)
		}
		return
	}
	gcp := 100
	if vrt.RaceEnabled {
		gcp = 50 // ThreadSanitizer multiplies the footprint of every heap byte
	}
	if v, err := strconv.Atoi(os.Getenv("VERIF_GOGC")); err == nil && v > 0 {
		gcp = v
	}
	debug.SetGCPercent(gcp)
	explore.MemCapBytes = *memcap
	ctx := &hx.Ctx{Prop: *prop, Tier: *tier, Shard: *shard, Of: *of, Seed: *seed, Deadline: time.Now().Add(*budget), OnlyUnit: *only,
		Out: &hx.ShardOut{Property: *prop, Tier: *tier, Shard: *shard, Of: *of}}
	if *replay != "" {
		b, err := os.ReadFile(*replay)
		if err != nil {
			fmt.Fprintln(os.Stderr, err)
			os.Exit(3)
		}
		var v hx.Violation
		if err := json.Unmarshal(b, &v); err != nil {
			fmt.Fprintln(os.Stderr, err)
			os.Exit(3)
		}
		ctx.Prop = v.Property
		ctx.Out.Property = v.Property
		ctx.Replay = &hx.ReplayReq{Unit: v.Unit, Choices: v.Choices}
		ctx.Shard, ctx.Of = 0, 1
	}
	f := hx.Lookup(ctx.Prop)
	if f == nil {
		fmt.Fprintf(os.Stderr, "vworker: no check registered for %q\n", ctx.Prop)
		os.Exit(3)
	}
	if mp := os.Getenv("VERIF_MEMPROF"); mp != "" { // development aid: allocation profile of the shard
		runtime.MemProfileRate = 8192
		defer func() {
			if fh, err := os.Create(mp); err == nil {
				pprof.Lookup("allocs").WriteTo(fh, 0)
				fh.Close()
			}
		}()
	}
	start := time.Now()
	f(ctx)
	ctx.Out.WallS = time.Since(start).Seconds()
	if *replay != "" {
		return
	}
	if *out != "" {
		if err := ctx.WriteOut(*out); err != nil {
			fmt.Fprintln(os.Stderr, err)
			os.Exit(3)
		}
	} else {
		for _, u := range ctx.Out.Units {
			u.EndStates = nil
		}
		b, _ := json.MarshalIndent(ctx.Out, "", " ")
		fmt.Println(string(b))
	}
}
