# sourced by every script: offline Go environment for the verif module
export GOFLAGS=-mod=mod GOPROXY=off GOSUMDB=off GOTOOLCHAIN=local
export GONOSUMCHECK=1 GONOSUMDB='*' GOFLAGS="-mod=mod"
VERIF_GO=/root/go/pkg/mod/golang.org/toolchain@v0.0.1-go1.24.2.linux-amd64/bin/go
if [ ! -x "$VERIF_GO" ]; then VERIF_GO=$(command -v go1.26.8 || command -v go); fi
export VERIF_GO
export PATH="$(dirname "$VERIF_GO"):$PATH"
