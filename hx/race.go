package hx

import (
	"fmt"
	"os"
	"sort"
	"strings"

	"verif/vrt"
)

// HB-race mode: the worker is built with -race, GORACE log_path points at a per-shard file, and after
// every execution the number of ThreadSanitizer reports is sampled; a delta names the witness schedule.

var (
	raceLast   int
	raceOffset int64
)

func raceLogFile() string {
	p := os.Getenv("VERIF_RACELOG")
	if p == "" {
		return ""
	}
	return fmt.Sprintf("%s.%d", p, os.Getpid())
}

// raceDelta returns the number of new race reports and, for the first new one, a signature (the
// unordered pair of racing functions) and the report text.
func raceDelta() (n int, sig, text string) {
	cur := vrt.RaceErrors()
	n = cur - raceLast
	raceLast = cur
	if n <= 0 {
		return 0, "", ""
	}
	sig, text = "unparsed-report", "data race reported by ThreadSanitizer (report text not captured)"
	f := raceLogFile()
	if f == "" {
		return
	}
	b, err := os.ReadFile(f)
	if err != nil || int64(len(b)) <= raceOffset {
		return
	}
	newText := string(b[raceOffset:])
	raceOffset = int64(len(b))
	i := strings.Index(newText, "WARNING: DATA RACE")
	if i < 0 {
		return
	}
	blk := newText[i:]
	if j := strings.Index(blk[10:], "=================="); j > 0 {
		blk = blk[:j+10]
	}
	text = blk
	// the two access stacks are the first two paragraphs
	paras := strings.Split(blk, "\n\n")
	var fns []string
	for _, p := range paras {
		if len(fns) >= 2 {
			break
		}
		head := strings.TrimSpace(strings.SplitN(p, "\n", 2)[0])
		if !(strings.Contains(head, " at 0x") && strings.Contains(head, "by ")) && !strings.HasPrefix(head, "WARNING") {
			continue
		}
		fn := "?"
		for _, l := range strings.Split(p, "\n") {
			l = strings.TrimSpace(l)
			if !strings.HasSuffix(l, ")") || strings.HasPrefix(l, "/") || strings.Contains(l, " at 0x") {
				continue
			}
			if strings.HasPrefix(l, "verif/") || strings.HasPrefix(l, "runtime.") || strings.HasPrefix(l, "sync/atomic.") ||
				strings.Contains(l, ".vf") || strings.Contains(l, ".Vf") || strings.HasPrefix(l, "internal/") {
				continue
			}
			fn = strings.TrimSuffix(l, "()")
			fn = strings.TrimPrefix(fn, "github.com/xtaci/kcp-go/v5.")
			// closures: keep the enclosing function
			if k := strings.Index(fn, ".func"); k > 0 {
				fn = fn[:k]
			}
			break
		}
		fns = append(fns, fn)
	}
	for len(fns) < 2 {
		fns = append(fns, "?")
	}
	sort.Strings(fns)
	sig = fns[0] + " | " + fns[1]
	return
}
