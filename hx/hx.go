// Package hx is the harness context: registry of per-property checks, unit bookkeeping, shard output.
package hx

import (
	"encoding/json"
	"fmt"
	"os"
	"sort"
	"strings"
	"time"

	"verif/explore"
	"verif/vrt"
)

// Violation as written to shard output and replay files.
type Violation struct {
	Property  string         `json:"property"`
	Unit      string         `json:"unit"`
	Params    map[string]any `json:"params,omitempty"`
	Signature string         `json:"signature"`
	Message   string         `json:"message"`
	Detail    string         `json:"detail,omitempty"`
	Choices   []int          `json:"choices"`
	Cost      int            `json:"cost"`
	Count     int            `json:"count"`
	Trace     []string       `json:"trace,omitempty"`
	Replayed  int            `json:"replayed_identically"`
}

// Unit is one explored harness × configuration.
type Unit struct {
	Name        string           `json:"name"`
	Params      map[string]any   `json:"params,omitempty"`
	Kind        string           `json:"kind"` // dfs | bfs | enum
	Bound       int              `json:"bound"`
	Executions  int64            `json:"executions"`
	Points      int64            `json:"choice_points"`
	MaxPoints   int              `json:"max_points_per_execution"`
	ByCost      map[string]int64 `json:"executions_by_deviation_cost,omitempty"`
	Outcomes    map[string]int64 `json:"outcomes,omitempty"`
	EndStates   []uint64         `json:"end_states,omitempty"`
	EndStatesN  int64            `json:"distinct_end_states"`
	NonTrivial  int64            `json:"nontrivial"`
	Distinct    int64            `json:"distinct_executions"`
	Pruned      int64            `json:"pruned_by_state_cache,omitempty"`
	States      int64            `json:"states,omitempty"`
	Transitions int64            `json:"transitions,omitempty"`
	Depth       int              `json:"depth,omitempty"`
	Exhaustive  bool             `json:"exhaustive"`
	CapHit      string           `json:"cap_hit,omitempty"`
	Violations  []*Violation     `json:"violations,omitempty"`
	Samples     []any            `json:"samples,omitempty"`
	Notes       []string         `json:"notes,omitempty"`
	WallS       float64          `json:"wall_s"`
}

// ShardOut is what one worker process writes.
type ShardOut struct {
	Property     string   `json:"property"`
	Tier         string   `json:"tier"`
	Shard        int      `json:"shard"`
	Of           int      `json:"of"`
	Units        []*Unit  `json:"units"`
	ToolingError string   `json:"tooling_error,omitempty"`
	Assumptions  []string `json:"assumptions,omitempty"`
	Rule         string   `json:"rule,omitempty"`
	WallS        float64  `json:"wall_s"`
}

// ReplayReq asks for a single execution.
type ReplayReq struct {
	Unit    string
	Choices []int
}

// Ctx is handed to a property's check function.
type Ctx struct {
	Prop       string
	Tier       string
	Shard, Of  int
	Seed       int64
	Deadline   time.Time
	UnitBudget time.Duration // budget of the next Explore call (0 = what is left)
	// AlwaysBound0: bound 0 (the default schedule under every environment choice) of each unit is completed whatever the
	// clock says, so that a slow machine still covers every unit's default schedule (race builds on a freshly restored
	// sandbox have been seen to run two orders of magnitude slower than on a warm one)
	AlwaysBound0 bool
	// MaxExecs caps the executions of each deviation bound above 0 of the following units (0 = none): a unit that a normal
	// machine finishes well inside its time budget does the same work on a slower one, so the evidence does not vary with
	// the machine; the cap is reported like any other cap (exhaustive=false)
	MaxExecs int
	Out      *ShardOut
	Replay   *ReplayReq
	OnlyUnit string // run only units whose name has this prefix (debugging)
	ByUnit   bool   // distribute whole units over the shards instead of splitting each unit's tree
	unitCtr  int
}

func (c *Ctx) Quick() bool { return c.Tier != "thorough" }

// Pick returns q for the quick tier and t for the thorough tier.
func Pick[T any](c *Ctx, q, t T) T {
	if c.Quick() {
		return q
	}
	return t
}

// Assume records an assumption for the evidence file.
func (c *Ctx) Assume(s string) { c.Out.Assumptions = append(c.Out.Assumptions, s) }

// Rule records how cases are enumerated and what makes one non-trivial.
func (c *Ctx) Rule(s string) { c.Out.Rule = s }

// Tracing is set while replaying: harnesses turn on vrt tracing.
var Tracing bool

// LastTrace is the trace of the most recent vrt execution run through RunVrt.
var LastTrace []string

// RunVrt runs main under the virtual runtime with the explorer's execution as chooser.
func RunVrt(e *explore.Exec, cfg vrt.Config, main func()) *vrt.Outcome {
	cfg.Chooser = e
	cfg.Trace = Tracing
	out := vrt.Run(cfg, main)
	LastTrace = out.Trace
	return out
}

func (c *Ctx) unitDeadline() time.Time {
	d := c.Deadline
	if c.UnitBudget > 0 {
		if u := time.Now().Add(c.UnitBudget); u.Before(d) || d.IsZero() {
			d = u
		}
	}
	c.UnitBudget = 0
	return d
}

func (c *Ctx) skip(name string) bool {
	if c.Replay != nil {
		return c.Replay.Unit != name
	}
	return c.OnlyUnit != "" && !strings.HasPrefix(name, c.OnlyUnit)
}

// Mine reports whether the k-th unit from here (1 = the next one) falls to this shard when whole units are distributed.
func (c *Ctx) Mine(k int) bool {
	return !c.ByUnit || c.Of <= 1 || (c.unitCtr+k-1)%c.Of == c.Shard
}

// NoCache disables state caching for the next Explore calls (sequential harnesses do not need it).
var NoCache bool

// Explore runs the DFS explorer over run within the deviation bound and records the unit.
func (c *Ctx) Explore(name string, params map[string]any, bound int, run explore.RunFunc) *Unit {
	if c.skip(name) {
		return nil
	}
	if c.Replay != nil {
		c.replay(name, params, run)
		return nil
	}
	shard, of := c.Shard, c.Of
	if c.ByUnit {
		c.unitCtr++
		if of > 1 && (c.unitCtr-1)%of != shard {
			c.UnitBudget = 0
			return nil
		}
		shard, of = 0, 1
	}
	if os.Getenv("VERIF_DEBUG") != "" {
		fmt.Fprintf(os.Stderr, "unit %s\n", name)
	}
	if vrt.RaceEnabled {
		inner := run
		prop := c.Prop
		raceDelta() // reports before this unit belong to nobody
		run = func(e *explore.Exec) explore.Verdict {
			v := inner(e)
			if n, sig, text := raceDelta(); n > 0 && v.Violation == "" {
				v.Violation, v.Signature, v.Detail = "data race (ThreadSanitizer on the explored schedule's happens-before relation): "+sig, prop+":race:"+sig, text
			}
			return v
		}
	}
	// iterated deviation bound: 0, 1, ..., bound; the highest bound completed is reported
	var samples []any
	deadline := c.unitDeadline()
	total := explore.NewStats()
	completed := -1
	var distinct, distinctNT, lastStates int64
	var wall float64
	var st *explore.Stats
	for b := 0; b <= bound; b++ {
		b := b
		st = explore.NewStats()
		dl := deadline
		if c.AlwaysBound0 && b == 0 {
			dl = time.Time{}
		}
		maxExecs := 0
		if b > 0 {
			maxExecs = c.MaxExecs
		}
		opt := explore.Options{Bound: b, Deadline: dl, MaxExecs: maxExecs, Shard: shard, Of: of, KeepGoing: true, MaxViol: 6, Cache: !NoCache,
			OnExec: func(e *explore.Exec, v explore.Verdict) {
				if e.Cost() == b { // executions below the bound were counted in an earlier iteration
					distinct++
					if v.NonTriv {
						distinctNT++
					}
				}
				// keep a few written-out cases: the first, and the first few with deviations
				if len(samples) < 3 && (len(samples) == 0 || (e.Cost() > 0 || len(e.Choices()) > 0) && v.NonTriv && e.Cost() == b) {
					samples = append(samples, map[string]any{"choices": e.Choices(), "deviation_cost": e.Cost(), "outcome": v.Outcome})
				}
			}}
		explore.Explore(run, opt, st)
		total.Merge(st)
		wall += st.WallSeconds
		lastStates = st.States
		if !st.Exhaustive {
			break
		}
		completed = b
		if len(st.Violations) > 0 || st.ByCost[b] == 0 {
			break // nothing new at this bound: higher bounds add nothing either
		}
	}
	if completed == bound || (st.Exhaustive && st.ByCost[st.Bound] == 0) {
		total.Exhaustive, total.CapHit = true, ""
	} else {
		total.Exhaustive = false
		if total.CapHit == "" {
			total.CapHit = st.CapHit
		}
		total.CapHit = fmt.Sprintf("%s during bound %d (bound %d completed)", total.CapHit, completed+1, completed)
	}
	st = total
	u := &Unit{Name: name, Params: params, Kind: "dfs", Bound: completed, Executions: st.Executions, Points: st.Points, MaxPoints: st.MaxPoints,
		ByCost: map[string]int64{}, Outcomes: st.Outcomes, EndStatesN: int64(len(st.EndStates)), NonTrivial: distinctNT, Distinct: distinct,
		Exhaustive: st.Exhaustive, CapHit: st.CapHit, Samples: samples, WallS: wall, Pruned: st.Pruned, States: lastStates, Transitions: st.Points}
	for k, v := range st.ByCost {
		u.ByCost[fmt.Sprint(k)] = v
	}
	n := 0
	for h := range st.EndStates {
		if n >= 100000 {
			break
		}
		u.EndStates = append(u.EndStates, h)
		n++
	}
	for _, v := range st.Violations {
		hv := &Violation{Property: c.Prop, Unit: name, Params: params, Signature: v.Signature, Message: v.Message, Detail: v.Detail,
			Choices: v.Choices, Cost: v.Cost, Count: v.Count}
		// determinism: the recorded choice list must reproduce the same verdict every time
		Tracing = true
		for i := 0; i < 3; i++ {
			if strings.Contains(v.Signature, ":race:") {
				break // ThreadSanitizer reports each racing pair once per process: a replay here stays silent by design
			}
			_, rv := explore.Replay(run, v.Choices)
			if rv.Signature != v.Signature {
				c.Out.ToolingError = fmt.Sprintf("unit %s: violation %q did not reproduce on replay %d (got %q): nondeterminism in the harness", name, v.Signature, i, rv.Signature)
				break
			}
			hv.Replayed++
			if i == 0 {
				hv.Trace = LastTrace
				if rv.Detail != "" {
					hv.Detail = rv.Detail
				}
			}
		}
		Tracing = false
		u.Violations = append(u.Violations, hv)
	}
	c.Out.Units = append(c.Out.Units, u)
	return u
}

func (c *Ctx) replay(name string, params map[string]any, run explore.RunFunc) {
	Tracing = true
	e, v := explore.Replay(run, c.Replay.Choices)
	Tracing = false
	fmt.Printf("replay unit=%s params=%v\nchoices=%v\n", name, params, e.Choices())
	for _, l := range LastTrace {
		fmt.Println("  ", l)
	}
	fmt.Printf("outcome: %s\n", v.Outcome)
	if v.Violation != "" {
		fmt.Printf("VIOLATION signature=%s\n%s\n%s\n", v.Signature, v.Violation, v.Detail)
	} else {
		fmt.Println("no violation")
	}
}

// AddUnit records a unit that was explored by other means (BFS, plain enumeration).
func (c *Ctx) AddUnit(u *Unit) {
	c.Out.Units = append(c.Out.Units, u)
}

// Skip reports whether a manually driven unit should be skipped (replay/only filters).
func (c *Ctx) Skip(name string) bool { return c.skip(name) }

// NewViolation builds a violation record for manually driven units.
func (c *Ctx) NewViolation(unit string, params map[string]any, sig, msg, detail string) *Violation {
	return &Violation{Property: c.Prop, Unit: unit, Params: params, Signature: sig, Message: msg, Detail: detail, Count: 1, Replayed: 1}
}

// CheckFunc is a property's check.
type CheckFunc func(c *Ctx)

var registry = map[string]CheckFunc{}

// Register adds a property check.
func Register(id string, f CheckFunc) {
	if _, dup := registry[id]; dup {
		panic("hx: duplicate check " + id)
	}
	registry[id] = f
}

// Registered lists the registered property ids.
func Registered() []string {
	var l []string
	for k := range registry {
		l = append(l, k)
	}
	sort.Strings(l)
	return l
}

// Lookup returns the check of a property.
func Lookup(id string) CheckFunc { return registry[id] }

// WriteOut writes the shard output.
func (c *Ctx) WriteOut(path string) error {
	b, err := json.Marshal(c.Out)
	if err != nil {
		return err
	}
	return os.WriteFile(path, b, 0o644)
}
