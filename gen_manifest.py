#!/usr/bin/env python3
"""Generates MANIFEST.json from the table below (single source of truth for the check registry)."""
import json, sys

LEVEL_NOTE = ("Trusted base: Go compiler/runtime; the vx source transformer (structural rewrites of go/chan/select and the time/sync/atomic "
              "imports); fidelity of the vrt shims to Go's sync/channel/timer semantics (self-tested); third-party libraries as shipped. "
              "The check executes the real kcp-go sources from /repo's working tree; bounds and alphabets are printed in the evidence file.")

# id -> (level, technique, text, design_ref)
CHECKS = {
 "C01": ("fault_enumeration", "exhaustive fate-vector enumeration over two real KCP cores with a prefix oracle after every read",
         "Every assignment of {deliver, drop, duplicate, reorder, delay past RTO} to the first K datagrams (both directions) of a transfer between two real KCP state machines and between a real client/listener session pair (cipher x FEC x mode covering grid; plus every schedule within the deviation bound on the loss-free run), "
         "for a grid of driving mode x stream/message x window x MTU x nodelay x write pattern, with the bytes/messages read compared against the bytes/messages accepted after every Recv; payloads that look like segments of the same conversation under a sender that overshoots; two concurrent writers on one session (whole records, deviation bound 1); vector writes; the MTU raised while a backlog is queued followed by every sequence of four writes over sizes relative to both segment sizes.",
         "DESIGN.md 5 C01"),
 "C02": ("fault_enumeration", "exhaustive fate-vector and outage enumeration with a drained-before-virtual-horizon oracle",
         "The same fate-vector space continued on a fair network until drained or a virtual horizon, plus total outages starting at every emission instant of the loss-free run for four outage lengths; "
         "a quiescent-but-undrained state or a missed horizon is a wedge; plus real session pairs (cipher x FEC x mode grid) under every fate vector over the first K datagrams with blocking readers and writers, which must all finish; every fourth core configuration again with the millisecond clock wrapping 45..1500 ms into the run.",
         "DESIGN.md 5 C02"),
 "C03": ("fault_enumeration", "exhaustive pause-point x control-datagram-loss-subset enumeration on two real KCP cores",
         "The reader pauses after every possible number of segments for four durations (below the first probe to above the probe cap) and every subset of the first N control-only datagrams after the pause is lost, in one and in both directions; explicit-state BFS (depth 4) over a forged peer with the probing invariants; "
         "whole sessions (two dialled peers, reader window in force from the first datagram, pauses up to 50 s, fates after the resume); a covering subset re-run with the millisecond clock in the upper half of its range and about to wrap; oracles: nothing lost (prefix), window discipline while stalled, transfer completes after resume, no session closes by itself.",
         "DESIGN.md 5 C03"),
 "C04": ("model_checking", "invariant checking after every transition of exhaustively enumerated executions of the real KCP cores",
         "Seven window invariants (delivery queue and reorder buffer bounded by the receive window, truthful advertised window, outstanding <= send window, new segments only inside min(snd_wnd, rmt_wnd, cwnd), "
         "no admission after a timeout loss) are evaluated after every call into either endpoint over all fate vectors of symmetric, asymmetric-window, slow-reader, application-limited and warmed-up configurations; explicit-state BFS (depth 3/4) against an adversarial peer; "
         "session clause: Write sequences over a dead and a healed network against the admission model (admitted iff pending < send window, otherwise blocked); packets rebuilt by FEC (fate: lost, input later marked recovered-by-FEC) against an independently tracked peer window (the last one advertised on the wire).",
         "DESIGN.md 5 C04"),
 "C12": ("exploration", "differential enumeration: every fate vector re-run under every boundary-placing offset of sn and clock",
         "Each base execution is re-run with initial sn and clock shifted so that the 2^31 / 2^32 boundary falls at every segment index resp. every stride of the run; normalised wire traces and delivered data must be identical. "
         "Long warmed-up transfers with congestion control on are part of the base runs. FEC: encoder 0-4 groups before its wrap value x idle gap before every data packet position, receivers tracking the stream or auto-tuned from another ratio: id discipline, recovery of one loss per group, decoder window follows the wrap.",
         "DESIGN.md 5 C12"),
 "C17": ("model_checking", "stateless DFS over thread interleavings of the real TimedSched on a controlled scheduler, iterated preemption bound, happens-before state caching",
         "All interleavings (preemption bound iterated 0..2/3; switches at blocking points, select ties free; early timer firing as a deviation) of 1-3 submitters with the real prepend/sched goroutines, "
         "deadline alphabets incl. ties with timer expiry and never-deadlines beyond the range of UnixNano, task functions that take time (busy worker), every arrival order of six pending tasks, 15..4097 pending tasks (every 2^k-1, 2^k, 2^k+1) in four shapes on the default schedule, both timer-channel semantics; oracle: each task exactly once, never early, run by the first quiescent state after its deadline, workers exit on Close.",
         "DESIGN.md 5 C17"),
 "C18": ("fault_enumeration", "exhaustive enumeration of a clean-path configuration grid; explicit-state BFS over acknowledgement timestamps and mode switches for the RTO bound",
         "Every configuration of a grid (mode x nodelay x one-way delay with 2D+interval < min RTO x windows x stream/message x length, bidirectional) is executed without faults on two real cores; incl. two independent flush clocks, trained estimator plus outlier, bursts larger than the receive window against a receiver that inputs a batch before its reader runs, and a covering subset re-run near the 2^32/2^31 wraps of sn and clock; every data sn must appear on the wire exactly once (an end re-arms its update with exactly what flush returns, as the session does); "
         "rx_rto within [minrto, 60000] after every call, and BFS (depth 5/6) over acknowledgements with aged/forged timestamps, ticks, sends and NoDelay mode switches (after a sample the RTO is at least the minimum of the current mode).",
         "DESIGN.md 5 C18"),
 "C20": ("model_checking", "explicit-state BFS to fixpoint over the real RingBuffer against a slice model",
         "All abstract states (capacity, head, length) with length <= L (48/144) reachable from NewRingBuffer(0,1,8,9,10,12,16,48,100) are enumerated to fixpoint and every operation "
         "of the alphabet is applied in each, compared with a slice-backed queue incl. raw-slot zeroing; plus every head position for capacities around the 1024 growth threshold.",
         "DESIGN.md 5 C20"),
 "C08": ("exploration", "complete enumeration of the length space against independently built references; interleaving exploration of concurrent callers",
         "All 13 BlockCrypt ciphers x every length 0..1500 x in-place/out-of-place x 3 (thorough 8) patterns x 2 (5) keys against crypto/cipher CFB (fixed IV), x/crypto salsa20, pbkdf2 XOR table, copy; "
         "AES-GCM seal/open inside a 1500-byte buffer for every plaintext length; 3 (4) concurrent callers (Encrypt and Decrypt mixed) on one BlockCrypt with every block-cipher call a scheduling point, all interleavings within preemption bound 2 (3), without state caching; every datagram of real session pairs (cipher x FEC x fate vectors; data, acks, parity, out-of-band) must open under the independent implementation.",
         "DESIGN.md 5 C08"),
 "C09": ("exploration", "independent README-derived decoder applied to every datagram of exhaustively enumerated session executions",
         "Every datagram either end of a real session pair hands to the virtual PacketConn, for every fate vector over the first K datagrams and every cipher x FEC x mode configuration, is decoded by a decoder that imports nothing from kcp: "
         "layout, CRC/tag, FEC type/position/order, Reed-Solomon parity of complete groups, nonce and datagram uniqueness, and the stream reassembled from the wire alone equals what was written; out-of-band packets and the FEC-protection rule (a continuous group is followed by its parity) included; encoder at its wrap value; "
         "2^20 sequential draws of the real entropy source are distinct, and so are concurrent draws under every interleaving (with scheduling points after every Unlock); two sessions accepted by one listener sealing with its one cipher object at the same time (every block operation a scheduling point, every single deviation, no state cache).",
         "DESIGN.md 5 C09"),
 "C10": ("exploration", "exhaustive enumeration of an MTU boundary alphabet x history positions x overhead classes on the real session and core",
         "len of every buffer at WriteTo <= session MTU over MTU x cipher x FEC classes and all fate vectors; SetMtu(v) for a boundary alphabet (incl. values just below the largest datagram sent) at six positions of a traffic history (incl. concurrently, with loss, and with the FEC group of a large packet still open under AEAD + FEC) on the session, "
         "and at three positions on the raw core; accepted => no panic, bound holds from then on, transfer completes; refused => only when unusable; out-of-band payload lengths around the maximum x MTU x cipher; emission-size BFS (depth 4) against a forged peer.",
         "DESIGN.md 5 C10"),
 "C13": ("model_checking", "stateless DFS over thread interleavings of the real session/listener code on a controlled scheduler with virtual time, iterated preemption bound, happens-before state caching",
         "58 timed scripts (data, data or acks in a datagram whose tail does not parse, one transient socket error at each position of a transmit batch, FEC-recovered data, draining a partly read message after Close, acks, window enlarged, sessions accepted from an owning listener that is closed, deadline none->set / later / earlier / zero->set / past, Close, socket errors; 1-3 blocked callers of Read/Write/Accept) x both timer-channel semantics; every interleaving within the deviation bound "
         "(delay bounding: preemptions, non-default thread at a blocking point, non-default ready select case); each call must return with the scripted outcome inside its virtual-time window (never before the effective deadline, not later than the instant it is due).",
         "DESIGN.md 5 C13"),
 "C15": ("model_checking", "stateless DFS with closers released at any scheduling point; leak and pool-ownership oracles",
         "Session pairs mid-transfer; closers for client, accepted session and listener (several orders) lurk and may be released at any scheduling point or at chosen virtual instants; afterwards every library goroutine must have exited, "
         "no timer may stay armed, and the pool sanitizer (double recycle, foreign buffer, write-after-recycle by poison; quarantine and eager-reuse modes) must stay silent; backlog overflow; SetDUP; "
         "events before the shutdown (socket faults, out-of-band handlers closing from inside the callback, simultaneous closes, a forged FEC type in a steady stream, Close while the pipeline is full on a slow path, a peer restarting with a new conversation so that the listener retires the old session) with and without the library owning the transport; listener closed at any point while new peers arrive.",
         "DESIGN.md 5 C15"),
 "C05": ("exploration", "structure-aware bounded-exhaustive input enumeration at every position of real histories, plus explicit-state BFS with an adversarial peer",
         "Truncations, extensions, constant strings and every single boundary-value header-field edit (thorough: pairs) of every genuine datagram, re-sealed with a valid CRC/tag, fed to the real packetInput at the datagram's history position "
         "(client, listener with/without session, foreign address); forged FEC groups and short typed bodies; raw KCP.Input header-alphabet product incl. >1500-byte payloads; forged fragment-count sequences read the way a session reads, and against real sessions and their Read with small, equal and large buffers; fecDecoder.decode alphabets and stale-flood sequences (64 packets in distinct groups behind the window); adversarial BFS (depth 3/4) on the core. "
         "Oracle: no panic, buffering limits of C04, bounded ack list / shard sets / pool occupancy.",
         "DESIGN.md 5 C05"),
 "C06": ("fault_enumeration", "exhaustive corruption battery per datagram and history position with an independent integrity oracle and a reflective deep-state hash",
         "For every datagram of a real client/listener history under each of 14 ciphers x FEC off/on: every bit flip, every burst (L in a set / 2..32) at every offset in two patterns, every substitution of a stored CRC/tag byte, every truncation, "
         "short and constant datagrams; the independent decoder decides which fail the check; for those a reflective deep hash of client, listener, sessions, FEC codecs, counters (except InCsumErrors) and pool occupancy must be unchanged; too-short and corrupted datagrams also through the plain and batch receive loops with a blocked reader (functional oracle: reader undisturbed, counters, sessions, a second exchange).",
         "DESIGN.md 5 C06"),
 "C07": ("fault_enumeration", "exhaustive enumeration of arrival sequences over real encoder output into the real decoder",
         "For each (d,p), group position (incl. 2^31, wrap value; tracked and fresh decoder) and payload-size vector: every arrival sequence of length <= n+1 over the group's n packets plus two of the next group; "
         "receivers that auto-tuned from another ratio at the wrap, at 2^31 and mid-space; for groups of more than 5 packets every arriving subset in four orders; for groups of more than 64 packets every burst loss of length {1,2,p-1,p} at every position in three orders; when the d-th distinct packet arrives every missing data packet must have been reconstructed byte-exactly with zero padding, and everything emitted must be an original of its group; "
         "session level: a session fed all data packets but one plus parity, with no peer to retransmit, must deliver the whole stream.",
         "DESIGN.md 5 C07"),
 "C14": ("exploration", "ThreadSanitizer happens-before race check on every explored schedule of the real code under the controlled scheduler (HB-race mode)",
         "All 27 UDPSession and 9 Listener methods, each called twice on its own thread on dialled and accepted session against live traffic and a second client, every cipher (none, AES-CFB, AEAD, sm4, twofish, blowfish, 3des, cast5, tea, xtea, salsa20, xor, none-with-CRC) x FEC {off,on} x Close variants, Read also with buffers smaller than a chunk; "
         "the scheduler's hand-offs are hidden from TSan and the shims announce the program's own HB edges, so a race between any two calls is reported on any schedule where both accesses occur; default schedules + single deviations (quick tier: the first 600 of each unit, a fixed amount of work independent of the machine's speed; thorough tier: as many as the time budget allows, then bound 2). The entropy generators (state written by assembly, invisible to TSan) are decided by interleaving exploration with scheduling points after every Unlock. Small dedicated units complete deviation bound 1 with scheduling points after every Unlock: readers with small buffers, and SendOOB against Close with the peer drawing from the same pool (pool ownership tracking as a second race oracle).",
         "DESIGN.md 5 C14"),
 "C16": ("fault_enumeration", "exhaustive enumeration of sender/receiver ratio pairs x starting residues; fate vectors for stability",
         "Every (d,p) x (d',p') with d,d'<=4, p,p'<=3 and boundary pairs up to d+p=255, from every starting residue and three bases: the real decoder fed the real encoder's uninterrupted output must adopt the ratio within 258+2(d+p) packets "
         "and then recover a single loss; with equal ratios every fate vector {deliver, drop, duplicate, swap} over the first K genuine packets must never set the tuning flag or change the ratio; whole sessions with different ratios at the two ends (or FEC at one end only) under every fate vector deliver both streams intact; one loss in every group from convergence to four groups past the sender's id wrap; sessions created without FEC or with another ratio fed an encoder's stream by hand must adopt the ratio and recover (nothing retransmits).",
         "DESIGN.md 5 C16"),
 "C11": ("fault_enumeration", "exhaustive fate-vector x injection enumeration on a real listener with several real clients; schedule deviations on a subset",
         "Listener + 2-3 dialled clients on the virtual network: every fate vector over the first K datagrams x one injected datagram (same address/other conversation with sn!=0, sn=0, ACK; foreign address replaying the conversation; "
         "parity/short packets without readable conversation; datagrams mixing segments of two conversations; strangers (other hosts, the peer's host from another port, the peer's address in another zone) and stale conversations writing to the dialled client) x three instants x backlog {default, 1} x address types x cipher/FEC classes, also through the Linux batch read loops on a virtual batch connection; an application that stops accepting while strangers keep the backlog full; a saturated session (pipeline overflow on a slow path) beside a second peer whose messages must keep arriving; "
         "plus connect/close/reconnect histories (same address, new conversation, application handlers that close on Read error and close twice) x reconnect instant x idle deadline x fates; "
         "each accepted session's reads must be a prefix of what the peer at its address and conversation wrote, each genuine peer accepted exactly once, nothing foreign delivered, stalled or closed.",
         "DESIGN.md 5 C11"),
 "C19": ("fault_enumeration", "exhaustive payload-length enumeration and fate-vector x schedule exploration of OOB interleaved with stream traffic on real session pairs",
         "Every OOB payload length 0..GetOOBMaxSize()+1 on a clean path for three cipher classes; boundary lengths in both directions under every fate vector and every single scheduling deviation with the independent wire decoder "
         "(OOB consumes no FEC id, parity covers data only) and the stream oracle; refusal without FEC and above the maximum; two clients on one listener; FEC at the peer only (out-of-band calls refused before, while and after FEC packets arrive; out-of-band messages sent to that end go nowhere and disturb nothing); an out-of-band message as the last request of a burst (the data before it is not delayed, Close still sends the tail); a new conversation on the same address while the old one's OOB is in flight, on the dialled and on the listener side.",
         "DESIGN.md 5 C19"),
}
NOT_YET = {}

def main():
    props = [json.loads(l) for l in open('/verif/properties.jsonl')]
    checks, na = [], []
    for p in props:
        i = p['id']
        if i in CHECKS:
            lvl, tech, text, ref = CHECKS[i]
            checks.append({
                "property_id": i,
                "quick_cmd": f"bin/check {i} quick",
                "thorough_cmd": f"bin/check {i} thorough",
                "evidence_file": f"/verif/evidence/{i}.json",
                "replay_cmd_template": "bin/vcheck replay {path}",
                "engine": "vrt-explore",
                "level_claimed": {"category": lvl, "text": text, "design_ref": ref},
                "level_note": LEVEL_NOTE,
                "technique": tech,
            })
        else:
            na.append({"property_id": i, "reason": NOT_YET.get(i, "check not built yet in this round (planned in DESIGN.md section 5); model checking applies, nothing is claimed until the check exists")})
    m = {
        "version": 1,
        "setup_cmd": "sh /verif/bin/setup",
        "hooks": {
            "guard": "verif",
            "enable": "go build -tags verif -overlay <generated by bin/vcheck: transformed sources + /verif/inpkg/*.go injected into package kcp>",
            "baseline_off_cmd": "cd /repo && go test -vet=off -count=1 -timeout 25m ./...",
            "source_commits": [],
            "add_only": True,
        },
        "engines": [{
            "name": "vrt-explore", "path": "/verif/cmd/vcheck",
            "serves_properties": sorted(CHECKS.keys()),
            "kind_free_text": "stateless DFS / explicit-state BFS explorer over the real kcp-go sources re-hosted on a cooperative virtual runtime (controlled scheduler, select, timers, clock, network)",
        }],
        "checks": checks,
        "not_applicable": na,
        "notes": "No source hooks are committed to /repo: in-package access is injected at build time through go build -overlay (tag verif). Exit codes: 0 held, 1 VIOLATION, 3 tooling error.",
    }
    json.dump(m, open('/verif/MANIFEST.json', 'w'), indent=1)
    print("checks:", len(checks), "not_applicable:", len(na))

main()
