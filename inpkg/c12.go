//go:build verif

package kcp

import (
	"bytes"
	"fmt"
	"strings"
	"time"

	"verif/explore"
	"verif/hx"
	"verif/vrt"
)

// C12: behaviour is invariant under sequence-number and clock wrap-around.
//
// Differential: every base execution (a fate vector over the first K datagrams) is re-run with the
// initial sequence number shifted by X and the millisecond clock shifted by Y; the normalised datagram
// trace (sn-X, una-X, ts-Y, emission time) and the delivered data must be identical. X places the 2^31
// and 2^32 boundaries at every segment index of the transfer (plus a window); Y places them at every
// millisecond of the run (strided in the quick tier).

func vfC12Offsets(nseg int, durMs uint32, strideMs uint32) (xs, ys []uint32) {
	for j := 0; j <= nseg+2; j++ {
		xs = append(xs, uint32(0)-uint32(j), uint32(1<<31)-uint32(j))
	}
	xs = append(xs, 1, 12345, 1<<31+7)
	for t := uint32(0); t <= durMs+strideMs; t += strideMs {
		ys = append(ys, uint32(0)-t, uint32(1<<31)-t)
	}
	ys = append(ys, 1, 1<<30, 1<<31+99)
	return
}

func vfC12Run(cfg vfSimCfg, nseg int, stride uint32) explore.RunFunc {
	return func(e *explore.Exec) explore.Verdict {
		v := explore.Verdict{}
		var fail, sig, detail string
		nsim := 0
		var outc string
		out := hx.RunVrt(e, vrt.Config{TimerEarlyCost: -1, Horizon: 24 * time.Hour}, func() {
			vfResetGlobals()
			base := vfNewSim(cfg)
			base.logWire = true
			base.owners = []string{"C12:"}
			base.run()
			nsim++
			outc = base.outcome()
			fx := cfg
			fx.FixedFates = append([]int{}, base.fates...)
			fx.K = 0
			xs, ys := vfC12Offsets(nseg, uint32(max(base.drained, 0))+500, stride)
			cmp := func(x, y uint32) bool {
				c := fx
				c.Sn0, c.Clk0 = x, y
				vfResetGlobals()
				sh := vfNewSim(c)
				sh.logWire = true
				sh.owners = []string{"C12:"}
				sh.run()
				nsim++
				diff := ""
				switch {
				case sh.drained != base.drained:
					diff = fmt.Sprintf("transfer drains at %dms instead of %dms", sh.drained, base.drained)
				case !bytes.Equal(sh.e[1].got, base.e[1].got) || len(sh.e[1].gmsgs) != len(base.e[1].gmsgs) || !bytes.Equal(sh.e[0].got, base.e[0].got):
					diff = "delivered data differs"
				case len(sh.wireLog) != len(base.wireLog):
					diff = fmt.Sprintf("%d datagram segments on the wire instead of %d", len(sh.wireLog), len(base.wireLog))
				default:
					for i := range sh.wireLog {
						if sh.wireLog[i] != base.wireLog[i] {
							diff = fmt.Sprintf("segment %d on the wire is %q, unshifted run has %q", i, sh.wireLog[i], base.wireLog[i])
							break
						}
					}
				}
				if diff != "" {
					kind := "sn"
					if x == 0 {
						kind = "clock"
					}
					near := "2^32"
					ref := x
					if x == 0 {
						ref = y
					}
					if ref > 1<<30 && ref <= 1<<31+8 {
						near = "2^31"
					}
					fail = fmt.Sprintf("shifting the connection (sn0=%#x, clock0=%#x) changes its behaviour: %s", x, y, diff)
					sig = fmt.Sprintf("C12:shift-changes-behaviour:%s-crossing-%s", kind, near)
					detail = fmt.Sprintf("fates %v\nbase trace:\n%s\nshifted trace:\n%s", base.fates, strings.Join(base.wireLog, "\n"), strings.Join(sh.wireLog, "\n"))
					return false
				}
				return true
			}
			for _, x := range xs {
				if !cmp(x, 0) {
					return
				}
			}
			for _, y := range ys {
				if !cmp(0, y) {
					return
				}
			}
			// both shifted at once on a few combinations
			for i := 0; i < len(xs) && i < len(ys); i += 3 {
				if !cmp(xs[i], ys[(i*7)%len(ys)]) {
					return
				}
			}
		})
		if out.Status == vrt.Panicked {
			v.Violation, v.Signature = out.Fail+"\n"+out.Stack, "C12:panic:"+vfPanicSite(out.Stack)
			return v
		}
		v.Outcome = outc
		v.StateHash = explore.HashString(outc + fmt.Sprint(nsim))
		v.NonTriv = true
		vfC12Sims += int64(nsim)
		if fail != "" {
			v.Violation, v.Signature, v.Detail = fail, sig, detail
		}
		return v
	}
}

var vfC12Sims int64

func vfC12core(c *hx.Ctx) {
	hx.NoCache = true
	c.ByUnit = true
	K := hx.Pick(c, 4, 5)
	stride := hx.Pick(c, uint32(3), uint32(1))
	type cf struct {
		mode   string
		stream bool
		wnd    int
		nd     [4]int
		w      []int
		from   int // faults start at this datagram (warmed-up connection with an open congestion window); 0 = from the start
	}
	long := make([]int, 90)
	for i := range long {
		long[i] = 16
	}
	cfgs := []cf{
		// congestion control on, fast retransmit on, twenty and more segments in flight when the loss is repaired: the
		// congestion response (ssthresh from the in-flight count) must not depend on where the window lies
		{"session", true, 32, [4]int{0, 10, 2, 0}, long, 24},
		{"update", true, 64, [4]int{0, 20, 2, 0}, long, 44},
		{"session", true, 4, [4]int{1, 10, 2, 1}, []int{16, 16, 16, 16, 16, 16}, 0},
		{"session", false, 32, [4]int{0, 40, 2, 0}, []int{16, 1, 16, 16, 5}, 0},
		{"update", true, 2, [4]int{0, 100, 0, 0}, []int{48, 16}, 0},
		{"update", false, 8, [4]int{1, 20, 2, 1}, []int{40, 16, 16}, 0},
		{"session", true, 1, [4]int{1, 20, 0, 0}, []int{16, 16, 16}, 0},
		{"update", true, 32, [4]int{0, 40, 2, 0}, []int{16, 16, 16, 16, 16, 16, 16, 16}, 0},
	}
	if c.Quick() {
		cfgs = cfgs[:6]
	}
	left := time.Until(c.Deadline)
	per := (len(cfgs) + max(c.Of, 1) - 1) / max(c.Of, 1)
	for _, x := range cfgs {
		sc := vfSimCfg{Mode: x.mode, Stream: x.stream, SndWnd: [2]int{x.wnd, x.wnd}, RcvWnd: [2]int{x.wnd, x.wnd}, Mtu: 40, NoDelay: x.nd,
			Delay: 10, K: K, Fates: vfAllFates, HorizonMs: 600000, PauseAfter: -1}
		if x.from > 0 {
			sc.FateFrom, sc.K, sc.Fates = x.from, 3, []int{vfDeliver, vfDrop}
		}
		sc.Writes[0] = x.w
		sc.Writes[1] = x.w[:1]
		nseg := 0
		for _, n := range x.w {
			nseg += (n + 15) / 16
		}
		c.UnitBudget = left / time.Duration(per)
		p := vfParams(sc)
		p["clock_stride_ms"] = stride
		p["offsets"] = "sn0: 2^31 and 2^32 boundary at every segment index; clock0: at every stride of the run"
		c.ByUnit = false
		before := vfC12Sims
		if u := c.Explore(fmt.Sprintf("shift/%s/stream=%v/wnd=%d/nodelay=%v/writes=%dx%v/faults-from=%d", x.mode, x.stream, x.wnd, x.nd, len(x.w), x.w[:min(len(x.w), 8)], x.from), p, 0, vfC12Run(sc, nseg, stride)); u != nil {
			u.Notes = append(u.Notes, fmt.Sprintf("this shard ran %d simulations (base + shifted) for this unit", vfC12Sims-before))
		}
	}
}

func init() {
	hx.Register("C12", func(c *hx.Ctx) {
		c.Rule("differential: each fate vector over the first K datagrams of a bidirectional transfer is run once unshifted and once for every offset of a list that places " +
			"the 2^31 and 2^32 boundaries of the sequence space at every segment index and of the millisecond clock at every stride of the run; an evaluation is one base execution " +
			"with all its shifted re-runs; non-trivial = all of them")
		c.Assume("the code touches absolute sn/ts values only through differences and wrapping adds, so behaviour can depend on an offset only through where a boundary falls relative to the run's events")
		vfC12core(c)
		vfC12fec(c)
	})
}

// FEC part of C12: the encoder's sequence ids wrap at a multiple of the group size without disturbing
// recovery — also when parity is skipped (idle gap) in the groups around the wrap.
func vfC12fec(c *hx.Ctx) {
	if c.Shard != 0 && c.Of > 1 {
		// cheap: one shard does it all
		return
	}
	if c.Skip("fec-wrap") {
		return
	}
	start := time.Now()
	u := &hx.Unit{Name: "fec-wrap", Kind: "enum", Exhaustive: true, Params: map[string]any{"ratios": "1/1 2/1 3/2 4/2 10/3 12/3", "encoder_start": "0..4 groups before the wrap value", "idle_gap": "none, or >rto before every data packet position of 6 groups", "receiver": "same ratio and tracking the stream; or configured 10/3, 3/2, 1/1, 128/127, 2/1 and auto-tuned during a loss-free warm-up"}}
	viol := func(sig, msg string) {
		for _, v := range u.Violations {
			if v.Signature == sig {
				v.Count++
				return
			}
		}
		u.Violations = append(u.Violations, c.NewViolation("fec-wrap", u.Params, sig, msg, ""))
	}
	for _, dp := range [][2]int{{1, 1}, {2, 1}, {3, 2}, {4, 2}, {10, 3}, {12, 3}} {
		d, p := dp[0], dp[1]
		size := uint32(d + p)
		paws := uint32(0xffffffff) / size * size
		const ngroups = 9
		for back := uint32(0); back <= 4; back++ {
			for gap := -1; gap < ngroups*d; gap++ {
				u.Executions++
				if gap >= 0 {
					u.NonTrivial++
				}
				vrt.SetSeqNow(0)
				enc := newFECEncoder(d, p, 0)
				enc.next = (paws - back*size) % paws
				enc.tsLatestPacket = vrt.Now().UnixMilli()
				// a decoder that has followed the stream so far
				dec := newFECDecoder(d, p)
				dec.newestShardId, dec.hasNewest = ((paws-back*size)%paws)/size, true
				var last, lastFed uint32
				have, fedAny := false, false
				where := fmt.Sprintf("%d/%d encoder starting %d groups before the wrap, idle gap before data packet %d", d, p, back, gap)
				for j := 0; j < ngroups*d; j++ {
					if j == gap {
						vrt.Advance(time.Duration(maxFECEncodeLatency+100) * time.Millisecond)
					}
					vrt.Advance(time.Millisecond)
					b := make([]byte, fecHeaderSizePlus2+20, 1500)
					for k := 0; k < 20; k++ {
						b[fecHeaderSizePlus2+k] = byte(j + k + 1)
					}
					ps := enc.encode(b, maxFECEncodeLatency)
					pkts := [][]byte{b}
					pkts = append(pkts, ps...)
					// wire-level id discipline
					for _, x := range pkts {
						id := fecPacket(x).seqid()
						if id >= paws {
							viol("C12:fec-id-not-below-wrap-value", fmt.Sprintf("%s: emitted id %d >= wrap value %d", where, id, paws))
						}
						if (id%size < uint32(d)) != (fecPacket(x).flag() == typeData) {
							viol("C12:fec-type-position-mismatch-after-wrap", fmt.Sprintf("%s: id %d (position %d) carries type %#x", where, id, id%size, fecPacket(x).flag()))
						}
						if have {
							adv := uint32((uint64(id) + uint64(paws) - uint64(last)) % uint64(paws))
							if adv == 0 || adv > uint32(p)+1 {
								viol("C12:fec-id-order-across-wrap", fmt.Sprintf("%s: id %d follows %d", where, id, last))
							}
						}
						last, have = id, true
					}
					// the receiver loses the first data packet of every group and must get it back whenever parity was sent
					groupStart := j%d == 0
					if !groupStart {
						lastFed, fedAny = fecPacket(b).seqid(), true
						for _, r := range dec.decode(fecPacket(b)) {
							defaultBufferPool.Put(r)
						}
					}
					if len(ps) > 0 {
						recovered := 0
						for _, x := range ps {
							lastFed, fedAny = fecPacket(x).seqid(), true
							for _, r := range dec.decode(fecPacket(append([]byte(nil), x...))) {
								recovered++
								defaultBufferPool.Put(r)
							}
						}
						if d > 1 && recovered != 1 {
							viol("C12:fec-no-recovery-around-wrap", fmt.Sprintf("%s: the group ending at id %d lost its first data packet, parity arrived, %d packets were recovered", where, last, recovered))
						}
					}
					if dec.shouldTune {
						viol("C12:fec-wrap-triggers-tuning", fmt.Sprintf("%s: genuine packets around the wrap made the decoder suspend decoding", where))
						dec.shouldTune = false
					}
					// the decoder's window must follow the stream across the wrap exactly as anywhere else: its reference is the
					// group of the packet just fed, and it holds no more than the few most recent groups
					if g := lastFed / size; fedAny && dec.hasNewest && dec.newestShardId != g {
						viol("C12:fec-decoder-window-does-not-follow-the-wrap", fmt.Sprintf("%s: after the packet with id %d (group %d) the decoder's newest group is %d", where, lastFed, g, dec.newestShardId))
					}
					if len(dec.shardSet) > maxShardSets+1 {
						viol("C12:fec-decoder-keeps-old-groups-after-the-wrap", fmt.Sprintf("%s: the decoder holds %d groups after id %d (it keeps the %d most recent elsewhere)", where, len(dec.shardSet), last, maxShardSets+1))
					}
				}
			}
		}
	}
	// a receiver that was configured with another ratio and adopted the sender's by auto-tuning before the ids wrap: its
	// own wrap value and window reference must be those of the adopted ratio
	for _, dp := range [][2]int{{2, 1}, {3, 2}, {4, 2}, {10, 3}} {
		d, p := dp[0], dp[1]
		size := uint32(d + p)
		paws := uint32(0xffffffff) / size * size
		for _, rdp := range [][2]int{{10, 3}, {3, 2}, {1, 1}, {128, 127}, {2, 1}} {
			if rdp == dp {
				continue
			}
			warm := uint32(258+2*int(size))/size + 3 // groups fed without loss: enough for the decoder to adopt the sender's ratio
			const ngroups = 6
			for back := uint32(0); back <= 4; back++ {
				u.Executions++
				u.NonTrivial++
				vrt.SetSeqNow(0)
				enc := newFECEncoder(d, p, 0)
				enc.next = (paws - (back+warm)*size) % paws
				enc.tsLatestPacket = vrt.Now().UnixMilli()
				dec := newFECDecoder(rdp[0], rdp[1])
				where := fmt.Sprintf("sender %d/%d, receiver configured %d/%d and auto-tuned, encoder %d groups before the wrap after the warm-up", d, p, rdp[0], rdp[1], back)
				var lastID uint32
				for j := 0; j < int(warm+ngroups)*d; j++ {
					vrt.Advance(time.Millisecond)
					b := make([]byte, fecHeaderSizePlus2+20, 1500)
					for k := 0; k < 20; k++ {
						b[fecHeaderSizePlus2+k] = byte(j + k + 1)
					}
					ps := enc.encode(b, maxFECEncodeLatency)
					measured := j >= int(warm)*d
					if j == int(warm)*d && (dec.dataShards != d || dec.parityShards != p) {
						break // no convergence within the warm-up: C16's subject, nothing to measure here
					}
					lost := measured && j%d == 0
					if !lost {
						for _, r := range dec.decode(fecPacket(b)) {
							defaultBufferPool.Put(r)
						}
					}
					recovered := 0
					for _, x := range ps {
						lastID = fecPacket(x).seqid()
						for _, r := range dec.decode(fecPacket(append([]byte(nil), x...))) {
							recovered++
							defaultBufferPool.Put(r)
						}
					}
					if measured && len(ps) > 0 && d > 1 && recovered != 1 {
						viol("C12:fec-no-recovery-around-wrap:receiver-auto-tuned", fmt.Sprintf("%s: the group ending at id %d lost its first data packet, parity arrived, %d packets were recovered", where, lastID, recovered))
					}
				}
			}
		}
	}
	u.Samples = append(u.Samples, map[string]any{"ratio": "3/2", "encoder_start_groups_before_wrap": 2, "idle_gap_before_data_packet": 5})
	u.EndStatesN = u.Executions
	u.Exhaustive = len(u.Violations) == 0
	u.WallS = time.Since(start).Seconds()
	c.AddUnit(u)
}
