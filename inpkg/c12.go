//go:build verif

package kcp

import (
	"bytes"
	"fmt"
	"strings"
	"time"

	"verif/explore"
	"verif/hx"
	"verif/vrt"
)

// C12: behaviour is invariant under sequence-number and clock wrap-around.
//
// Differential: every base execution (a fate vector over the first K datagrams) is re-run with the
// initial sequence number shifted by X and the millisecond clock shifted by Y; the normalised datagram
// trace (sn-X, una-X, ts-Y, emission time) and the delivered data must be identical. X places the 2^31
// and 2^32 boundaries at every segment index of the transfer (plus a window); Y places them at every
// millisecond of the run (strided in the quick tier).

func vfC12Offsets(nseg int, durMs uint32, strideMs uint32) (xs, ys []uint32) {
	for j := 0; j <= nseg+2; j++ {
		xs = append(xs, uint32(0)-uint32(j), uint32(1<<31)-uint32(j))
	}
	xs = append(xs, 1, 12345, 1<<31+7)
	for t := uint32(0); t <= durMs+strideMs; t += strideMs {
		ys = append(ys, uint32(0)-t, uint32(1<<31)-t)
	}
	ys = append(ys, 1, 1<<30, 1<<31+99)
	return
}

func vfC12Run(cfg vfSimCfg, nseg int, stride uint32) explore.RunFunc {
	return func(e *explore.Exec) explore.Verdict {
		v := explore.Verdict{}
		var fail, sig, detail string
		nsim := 0
		var outc string
		out := hx.RunVrt(e, vrt.Config{TimerEarlyCost: -1, Horizon: 24 * time.Hour}, func() {
			vfResetGlobals()
			base := vfNewSim(cfg)
			base.logWire = true
			base.owners = []string{"C12:"}
			base.run()
			nsim++
			outc = base.outcome()
			fx := cfg
			fx.FixedFates = append([]int{}, base.fates...)
			fx.K = 0
			xs, ys := vfC12Offsets(nseg, uint32(max(base.drained, 0))+500, stride)
			cmp := func(x, y uint32) bool {
				c := fx
				c.Sn0, c.Clk0 = x, y
				vfResetGlobals()
				sh := vfNewSim(c)
				sh.logWire = true
				sh.owners = []string{"C12:"}
				sh.run()
				nsim++
				diff := ""
				switch {
				case sh.drained != base.drained:
					diff = fmt.Sprintf("transfer drains at %dms instead of %dms", sh.drained, base.drained)
				case !bytes.Equal(sh.e[1].got, base.e[1].got) || len(sh.e[1].gmsgs) != len(base.e[1].gmsgs) || !bytes.Equal(sh.e[0].got, base.e[0].got):
					diff = "delivered data differs"
				case len(sh.wireLog) != len(base.wireLog):
					diff = fmt.Sprintf("%d datagram segments on the wire instead of %d", len(sh.wireLog), len(base.wireLog))
				default:
					for i := range sh.wireLog {
						if sh.wireLog[i] != base.wireLog[i] {
							diff = fmt.Sprintf("segment %d on the wire is %q, unshifted run has %q", i, sh.wireLog[i], base.wireLog[i])
							break
						}
					}
				}
				if diff != "" {
					kind := "sn"
					if x == 0 {
						kind = "clock"
					}
					near := "2^32"
					ref := x
					if x == 0 {
						ref = y
					}
					if ref > 1<<30 && ref <= 1<<31+8 {
						near = "2^31"
					}
					fail = fmt.Sprintf("shifting the connection (sn0=%#x, clock0=%#x) changes its behaviour: %s", x, y, diff)
					sig = fmt.Sprintf("C12:shift-changes-behaviour:%s-crossing-%s", kind, near)
					detail = fmt.Sprintf("fates %v\nbase trace:\n%s\nshifted trace:\n%s", base.fates, strings.Join(base.wireLog, "\n"), strings.Join(sh.wireLog, "\n"))
					return false
				}
				return true
			}
			for _, x := range xs {
				if !cmp(x, 0) {
					return
				}
			}
			for _, y := range ys {
				if !cmp(0, y) {
					return
				}
			}
			// both shifted at once on a few combinations
			for i := 0; i < len(xs) && i < len(ys); i += 3 {
				if !cmp(xs[i], ys[(i*7)%len(ys)]) {
					return
				}
			}
		})
		if out.Status == vrt.Panicked {
			v.Violation, v.Signature = out.Fail+"\n"+out.Stack, "C12:panic:"+vfPanicSite(out.Stack)
			return v
		}
		v.Outcome = outc
		v.StateHash = explore.HashString(outc + fmt.Sprint(nsim))
		v.NonTriv = true
		vfC12Sims += int64(nsim)
		if fail != "" {
			v.Violation, v.Signature, v.Detail = fail, sig, detail
		}
		return v
	}
}

var vfC12Sims int64

func vfC12core(c *hx.Ctx) {
	hx.NoCache = true
	c.ByUnit = true
	K := hx.Pick(c, 4, 5)
	stride := hx.Pick(c, uint32(3), uint32(1))
	type cf struct {
		mode   string
		stream bool
		wnd    int
		nd     [4]int
		w      []int
	}
	cfgs := []cf{
		{"session", true, 4, [4]int{1, 10, 2, 1}, []int{16, 16, 16, 16, 16, 16}},
		{"session", false, 32, [4]int{0, 40, 2, 0}, []int{16, 1, 16, 16, 5}},
		{"update", true, 2, [4]int{0, 100, 0, 0}, []int{48, 16}},
		{"update", false, 8, [4]int{1, 20, 2, 1}, []int{40, 16, 16}},
		{"session", true, 1, [4]int{1, 20, 0, 0}, []int{16, 16, 16}},
		{"update", true, 32, [4]int{0, 40, 2, 0}, []int{16, 16, 16, 16, 16, 16, 16, 16}},
	}
	if c.Quick() {
		cfgs = cfgs[:4]
	}
	left := time.Until(c.Deadline)
	per := (len(cfgs) + max(c.Of, 1) - 1) / max(c.Of, 1)
	for _, x := range cfgs {
		sc := vfSimCfg{Mode: x.mode, Stream: x.stream, SndWnd: [2]int{x.wnd, x.wnd}, RcvWnd: [2]int{x.wnd, x.wnd}, Mtu: 40, NoDelay: x.nd,
			Delay: 10, K: K, Fates: vfAllFates, HorizonMs: 600000, PauseAfter: -1}
		sc.Writes[0] = x.w
		sc.Writes[1] = x.w[:1]
		nseg := 0
		for _, n := range x.w {
			nseg += (n + 15) / 16
		}
		c.UnitBudget = left / time.Duration(per)
		p := vfParams(sc)
		p["clock_stride_ms"] = stride
		p["offsets"] = "sn0: 2^31 and 2^32 boundary at every segment index; clock0: at every stride of the run"
		c.ByUnit = false
		before := vfC12Sims
		if u := c.Explore(fmt.Sprintf("shift/%s/stream=%v/wnd=%d/nodelay=%v/writes=%v", x.mode, x.stream, x.wnd, x.nd, x.w), p, 0, vfC12Run(sc, nseg, stride)); u != nil {
			u.Notes = append(u.Notes, fmt.Sprintf("this shard ran %d simulations (base + shifted) for this unit", vfC12Sims-before))
		}
	}
}

func init() {
	hx.Register("C12", func(c *hx.Ctx) {
		c.Rule("differential: each fate vector over the first K datagrams of a bidirectional transfer is run once unshifted and once for every offset of a list that places " +
			"the 2^31 and 2^32 boundaries of the sequence space at every segment index and of the millisecond clock at every stride of the run; an evaluation is one base execution " +
			"with all its shifted re-runs; non-trivial = all of them")
		c.Assume("the code touches absolute sn/ts values only through differences and wrapping adds, so behaviour can depend on an offset only through where a boundary falls relative to the run's events")
		vfC12core(c)
	})
}
