//go:build verif

package kcp

import (
	"time"

	"verif/hx"
)

func init() {
	hx.Register("C01", func(c *hx.Ctx) {
		c.Rule(vfCoreRule)
		c.Assume("raw message mode: a message has at most rcv_wnd fragments (documented KCP limit; the session layer never fragments)")
		// the core grid gets 55% of the time, the session grid the rest
		full := c.Deadline
		c.Deadline = time.Now().Add(time.Until(full) * 55 / 100)
		vfC01core(c)
		c.Deadline = full
		vfC01sess(c)
	})
	hx.Register("C03", vfC03)
	hx.Register("C04", func(c *hx.Ctx) {
		c.Rule(vfCoreRule + " Window invariants are evaluated after every call into either endpoint and at every emission; asymmetric windows with a slow reader are added; session clause: Write sequences over a dead and a healed network against the admission model.")
		vfC04honest(c)
		c.ByUnit = true
		vfC04sess(c)
		c.ByUnit = false
		vfAdversarialBFS(c, "C04:", hx.Pick(c, 3, 4), !c.Quick())
	})
	hx.Register("C18", func(c *hx.Ctx) {
		c.Rule("clean path: every configuration of the grid (driving mode x nodelay x delay x windows x write pattern; two independent flush clocks; trained estimator plus outlier at every offset) is one deterministic execution with no faults; RTO bound: explicit-state BFS over acknowledgements with an aged/forged timestamp alphabet, ticks and sends. Non-trivial = every configuration / every new BFS state")
		vfC18clean(c)
		vfRtoBFS(c, hx.Pick(c, 5, 6))
	})
}
