//go:build verif

package kcp

import (
	"errors"
	"fmt"
	"net"
	"time"

	"golang.org/x/net/ipv4"

	"verif/vrt"
)

// Virtual network: net.PacketConn implementations built on vrt primitives. WriteTo never blocks, ReadFrom
// blocks, Close fails pending and future operations; the fate of every datagram (deliver after a delay,
// drop, duplicate, …) is decided by a policy callback, which typically asks the explorer. The sockets do
// not implement SyscallConn/ReadMsgUDP, so the library takes its portable read/write paths.

type vfDgram struct {
	from net.Addr
	data []byte
}

type vfNet struct {
	socks map[string]*vfSock
	// onSend observes every datagram handed to WriteTo (before its fate is applied)
	onSend func(from, to *vfSock, data []byte)
	// fate returns the delivery delays of the datagram (empty = dropped); nil = deliver after Delay
	fate  func(from, to *vfSock, data []byte, idx int) []time.Duration
	Delay time.Duration
	sent  int
	mu    vrt.Mutex // orders the harness-side bookkeeping of concurrent senders (and chains it for state caching)
}

func vfNewNet() *vfNet { return &vfNet{socks: map[string]*vfSock{}, Delay: 5 * time.Millisecond} }

type vfSock struct {
	n         *vfNet
	addr      net.Addr
	mu        vrt.Mutex
	cond      *vrt.Cond
	q         []vfDgram
	closed    bool
	readErr   error // injected: the next ReadFrom fails with it
	writeErr  error // injected: WriteTo fails with it
	failAt    int   // > 0: the failAt-th WriteTo from now fails ONCE with failAtErr (a transient error at one position of a batch)
	failAtErr error
	nread     int
	nwritten  int
	slowTo    map[string]time.Duration // WriteTo towards these addresses takes this long (a slow path to one peer)
}

var errVfClosed = errors.New("use of closed network connection")

func vfUDP(host byte, port int) *net.UDPAddr {
	return &net.UDPAddr{IP: net.IPv4(10, 0, 0, host), Port: port}
}

// vfStrAddr is a non-UDP address type (exercises the string-comparison source filter).
type vfStrAddr string

func (a vfStrAddr) Network() string { return "virt" }
func (a vfStrAddr) String() string  { return string(a) }

func (n *vfNet) socket(addr net.Addr) *vfSock {
	s := &vfSock{n: n, addr: addr}
	s.cond = vrt.NewCond(&s.mu)
	n.mu.Lock()
	n.socks[addr.String()] = s
	n.mu.Unlock()
	return s
}

func (s *vfSock) enqueue(d vfDgram) {
	s.mu.Lock()
	if !s.closed {
		s.q = append(s.q, d)
		s.cond.Broadcast()
	}
	s.mu.Unlock()
}

func (s *vfSock) ReadFrom(p []byte) (int, net.Addr, error) {
	s.mu.Lock()
	defer s.mu.Unlock()
	for {
		if s.readErr != nil {
			err := s.readErr
			return 0, nil, err
		}
		if s.closed {
			return 0, nil, errVfClosed
		}
		if len(s.q) > 0 {
			d := s.q[0]
			s.q = s.q[1:]
			s.nread++
			n := copy(p, d.data)
			return n, d.from, nil
		}
		s.cond.Wait()
	}
}

func (s *vfSock) WriteTo(p []byte, addr net.Addr) (int, error) {
	if d := s.slowTo[addr.String()]; d > 0 {
		vrt.Sleep(d)
	}
	s.mu.Lock()
	if s.closed {
		s.mu.Unlock()
		return 0, errVfClosed
	}
	if s.writeErr != nil {
		err := s.writeErr
		s.mu.Unlock()
		return 0, err
	}
	if s.failAt > 0 {
		s.failAt--
		if s.failAt == 0 {
			err := s.failAtErr
			s.mu.Unlock()
			return 0, err
		}
	}
	s.nwritten++
	s.mu.Unlock()
	n := s.n
	data := append([]byte(nil), p...)
	n.mu.Lock()
	to := n.socks[addr.String()]
	if n.onSend != nil {
		n.onSend(s, to, data)
	}
	idx := n.sent
	n.sent++
	delays := []time.Duration{n.Delay}
	if n.fate != nil {
		delays = n.fate(s, to, data, idx)
	}
	n.mu.Unlock()
	if to == nil {
		return len(p), nil // nobody there
	}
	for i, d := range delays {
		dd := data
		if i > 0 {
			dd = append([]byte(nil), data...)
		}
		dg := vfDgram{from: s.addr, data: dd}
		if d <= 0 {
			to.enqueue(dg)
		} else {
			vrt.AfterFunc(d, func() { to.enqueue(dg) })
		}
	}
	return len(p), nil
}

// inject places a datagram into the socket's receive queue as if it came from `from`.
func (s *vfSock) inject(from net.Addr, data []byte) {
	s.enqueue(vfDgram{from: from, data: append([]byte(nil), data...)})
}

func (s *vfSock) failReads(err error) {
	s.mu.Lock()
	s.readErr = err
	s.cond.Broadcast()
	s.mu.Unlock()
}

func (s *vfSock) failWrites(err error) {
	s.mu.Lock()
	s.writeErr = err
	s.mu.Unlock()
}

// failWriteAt makes the k-th WriteTo from now fail once; the writes before and after it succeed.
func (s *vfSock) failWriteAt(k int, err error) {
	s.mu.Lock()
	s.failAt, s.failAtErr = k, err
	s.mu.Unlock()
}

func (s *vfSock) Close() error {
	s.mu.Lock()
	defer s.mu.Unlock()
	if s.closed {
		return errVfClosed
	}
	s.closed = true
	s.cond.Broadcast()
	return nil
}

func (s *vfSock) LocalAddr() net.Addr                { return s.addr }
func (s *vfSock) SetDeadline(t time.Time) error      { return nil }
func (s *vfSock) SetReadDeadline(t time.Time) error  { return nil }
func (s *vfSock) SetWriteDeadline(t time.Time) error { return nil }
func (s *vfSock) String() string                     { return fmt.Sprintf("sock(%s)", s.addr) }

// optional socket knobs the session forwards to (exercised by C14)
func (s *vfSock) SetReadBuffer(bytes int) error  { return nil }
func (s *vfSock) SetWriteBuffer(bytes int) error { return nil }
func (s *vfSock) SetDSCP(int) error              { return nil }

// ---------------------------------------------------------------------------------------------
// Virtual batch connection: the Linux recvmmsg/sendmmsg paths (readloop_linux.go, tx_linux.go) on the virtual
// network. The transformer makes newBatchConn ask vfBatchConnHook first; with vfBatchMode on, a virtual socket gets
// a batch wrapper and the library takes its batch read loops and batch transmit path. ReadBatch returns every
// datagram queued at that moment (up to len(ms)) in one call, as recvmmsg does for a reader that is behind.

var vfBatchMode bool

// vfBatchPartial makes WriteBatch accept only the first message of every second multi-message batch (sendmmsg may
// return a short count; the caller has to loop).
var vfBatchPartial bool

// vfBatchFault: once, a multi-message batch is accepted only in part and the call for the remainder fails (a transient
// error between two sendmmsg calls): what was accepted is on the wire and must not be sent again.
var vfBatchFault bool

type vfBatch struct {
	s          *vfSock
	calls      int
	faultState int
}

func vfBatchConnHook(conn net.PacketConn) batchConn {
	if s, ok := conn.(*vfSock); ok && vfBatchMode {
		return &vfBatch{s: s}
	}
	return nil
}

func (b *vfBatch) ReadBatch(ms []ipv4.Message, flags int) (int, error) {
	s := b.s
	s.mu.Lock()
	defer s.mu.Unlock()
	for {
		if s.readErr != nil {
			return 0, s.readErr
		}
		if s.closed {
			return 0, errVfClosed
		}
		if len(s.q) > 0 {
			n := 0
			for n < len(ms) && len(s.q) > 0 {
				d := s.q[0]
				s.q = s.q[1:]
				s.nread++
				ms[n].N = copy(ms[n].Buffers[0], d.data)
				ms[n].Addr = d.from
				n++
			}
			return n, nil
		}
		s.cond.Wait()
	}
}

func (b *vfBatch) WriteBatch(ms []ipv4.Message, flags int) (int, error) {
	b.calls++
	if vfBatchFault {
		switch {
		case b.faultState == 0 && len(ms) > 1 && b.calls > 2:
			b.faultState = 1
			if _, err := b.s.WriteTo(ms[0].Buffers[0], ms[0].Addr); err != nil {
				return 0, err
			}
			return 1, nil
		case b.faultState == 1:
			b.faultState = 2
			return 0, errVfInjected
		}
	}
	for i := range ms {
		if _, err := b.s.WriteTo(ms[i].Buffers[0], ms[i].Addr); err != nil {
			return i, err
		}
		if vfBatchPartial && len(ms) > 1 && b.calls%2 == 0 {
			return 1, nil
		}
	}
	return len(ms), nil
}
