//go:build verif

package kcp

// Files in this directory are injected into package kcp through `go build -overlay` (tag verif); the
// repository itself is not modified. Everything here is prefixed vf/Vf to stay clear of the package's
// own identifiers.

import (
	"fmt"
	"runtime/debug"
	"time"
	"unsafe"

	"verif/vrt"
)

func init() {
	// statistics counters: atomics on them are not scheduling points (no library branch depends on them)
	vrt.Quiet(unsafe.Pointer(DefaultSnmp), unsafe.Sizeof(*DefaultSnmp))
}

// vfCounterEntropy is a deterministic entropy source: a 64-bit counter expanded over the request.
type vfCounterEntropy struct {
	mu vrt.Mutex // like the real sources, safe for concurrent use
	n  uint64
}

func (c *vfCounterEntropy) Read(p []byte) (int, error) {
	c.mu.Lock()
	defer c.mu.Unlock()
	for i := range p {
		if i%8 == 0 {
			c.n++
		}
		p[i] = byte(c.n >> (8 * (i % 8)))
		if i%8 == 7 {
			p[i] ^= 0xA5
		}
	}
	return len(p), nil
}

// vfResetGlobals puts the package-level state into a known state at the start of an execution.
func vfResetGlobals() *vfCounterEntropy {
	DefaultSnmp.Reset()
	ent := &vfCounterEntropy{}
	SetEntropy(ent)
	refTime = vrt.Epoch0
	vfBatchMode, vfBatchPartial, vfBatchFault = false, false, false
	return ent
}

func vfMs(d time.Duration) string { return fmt.Sprintf("%.3fms", float64(d)/1e6) }

func vfStack() []byte { return debug.Stack() }
