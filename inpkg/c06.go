//go:build verif

package kcp

import (
	"bytes"
	"fmt"
	"net"
	"time"

	"verif/hx"
	"verif/vrt"
	"verif/wire"
)

// C06: packets failing the integrity check have no effect at all.
//
// A real session pair runs (default schedule); whenever a genuine datagram is about to be delivered, the
// harness first feeds the destination's real packetInput a battery of corruptions of exactly that
// datagram (the state of the destination is the state at that point of the history). The independent
// decoder decides whether a corrupted datagram fails the check (exact also under CFB error
// propagation); if it does, a reflective deep hash of client, listener, all sessions, FEC codecs,
// counters (except InCsumErrors) and pool occupancy must be identical before and after.

type vfCorruption struct {
	kind string
	data []byte
}

// vfCorruptions enumerates the battery for one datagram.
func vfCorruptions(dg []byte, tagBytes []int, burstLens []int, emit func(kind string, b []byte) bool) {
	n := len(dg) * 8
	buf := make([]byte, len(dg))
	// single-bit flips
	for i := 0; i < n; i++ {
		copy(buf, dg)
		buf[i/8] ^= 1 << uint(i%8)
		if !emit("bit-flip", buf) {
			return
		}
	}
	// error bursts of length L at every bit offset: all bits flipped / only the two ends flipped
	for _, L := range burstLens {
		for i := 0; i+L <= n; i++ {
			for pat := 0; pat < 2; pat++ {
				if pat == 1 && L < 3 {
					continue
				}
				copy(buf, dg)
				for k := 0; k < L; k++ {
					if pat == 0 || k == 0 || k == L-1 {
						buf[(i+k)/8] ^= 1 << uint((i+k)%8)
					}
				}
				if !emit(fmt.Sprintf("burst-%d", L), buf) {
					return
				}
			}
		}
	}
	// every substitution of a byte of the stored CRC / tag
	for _, pos := range tagBytes {
		if pos >= len(dg) {
			continue
		}
		for v := 0; v < 256; v++ {
			if byte(v) == dg[pos] {
				continue
			}
			copy(buf, dg)
			buf[pos] = byte(v)
			if !emit("crc-or-tag-byte", buf) {
				return
			}
		}
	}
	// truncations and extensions
	for l := 0; l < len(dg); l++ {
		if !emit("truncated", dg[:l]) {
			return
		}
	}
	for _, extra := range []int{1, 2, 16, 100} {
		if len(dg)+extra <= 1500 {
			e := append(append([]byte{}, dg...), make([]byte, extra)...)
			if !emit("extended", e) {
				return
			}
		}
	}
}

func vfC06(c *hx.Ctx) {
	c.Rule("for every datagram of a traffic history between a real client and listener (both directions, every cipher, FEC off/on) and at its position in the history: every single-bit flip, every burst of length L " +
		"(quick: L in {2,3,4,8,16,24,31,32}; thorough: 2..32) at every bit offset in two patterns, every substitution of a stored CRC/tag byte, every truncation, some extensions; plus short and constant datagrams; " +
		"fed to the destination's real packetInput (listener: with and without a session for the source address). Cases the independent decoder shows to fail the check must leave a reflective deep hash of all state unchanged. " +
		"Non-trivial = corrupted datagrams that fail the check (counted); those that happen to pass are counted separately and not judged.")
	c.Assume("the deep hash skips only scratch memory that carries no state between calls (staging/encode caches) and synchronisation objects; the skip list is in inpkg/deephash.go")
	ciphers := []string{"aes-128", "aes-192", "aes-256", "sm4", "twofish", "3des", "cast5", "blowfish", "tea", "xtea", "salsa20", "xor", "none", "aes-gcm"}
	bursts := []int{2, 3, 4, 8, 16, 24, 31, 32}
	if !c.Quick() {
		bursts = nil
		for l := 2; l <= 32; l++ {
			bursts = append(bursts, l)
		}
	}
	cfgIdx := 0
	for _, ciph := range ciphers {
		for _, fec := range [][2]int{{0, 0}, {2, 1}} {
			cfgIdx++
			name := fmt.Sprintf("battery/cipher=%s/fec=%d,%d", ciph, fec[0], fec[1])
			if c.Skip(name) {
				continue
			}
			start := time.Now()
			u := &hx.Unit{Name: name, Kind: "enum", Exhaustive: true, Params: map[string]any{"cipher": ciph, "fec": fec, "burst_lengths": bursts, "writes": []int{40, 25}}}
			var judged, passed, dgrams int64
			byKind := map[string]int64{}
			viol := func(sig, msg string) {
				for _, v := range u.Violations {
					if v.Signature == sig {
						v.Count++
						return
					}
				}
				if len(u.Violations) < 5 {
					u.Violations = append(u.Violations, c.NewViolation(name, u.Params, sig, msg, ""))
				}
			}
			cf := vfPairCfg{Cipher: ciph, DS: fec[0], PS: fec[1], SDS: -1, Stream: true, NoDelay: [4]int{1, 10, 2, 1}, Writes: []int{40, 25}, WritesBack: []int{30}, ReadBuf: 4096,
				Pool: vrt.PoolPlain, HorizonS: 30}
			_, wc := vfBlockCrypt(ciph)
			var tagBytes []int
			if ciph == "aes-gcm" {
				tagBytes = nil // filled per datagram: the last 16 bytes
			} else {
				tagBytes = []int{16, 17, 18, 19}
			}
			out := vrt.Run(vrt.Config{Chooser: vfDefaultChooser{}, TimerEarlyCost: -1, Horizon: 30 * time.Second, MaxSteps: 3000000}, func() {
				p := vfPairSetup(cf)
				foreign := vfUDP(66, 6666)
				snap := func() uint64 {
					st := vrt.GetPoolStats()
					p.listener.sessionLock.RLock()
					ns := len(p.listener.sessions)
					p.listener.sessionLock.RUnlock()
					return vfDeepHash(p.client, p.listener, DefaultSnmp, st.Outstanding, ns)
				}
				idx := 0
				p.net.fate = func(from, to *vfSock, data []byte, _ int) []time.Duration {
					idx++
					mine := c.Of <= 1 || idx%c.Of == c.Shard
					if !mine || time.Now().After(c.Deadline) || to == nil {
						if mine && to != nil {
							u.Exhaustive, u.CapHit = false, "internal deadline"
						}
						return []time.Duration{p.net.Delay}
					}
					dgrams++
					tb := tagBytes
					if ciph == "aes-gcm" {
						tb = nil
						for k := len(data) - 16; k < len(data); k++ {
							tb = append(tb, k)
						}
					}
					toListener := to == p.lsock
					feed := func(b []byte, src net.Addr) {
						buf := make([]byte, len(b), 1500)
						copy(buf, b)
						if toListener {
							p.listener.packetInput(buf, src)
						} else {
							p.client.packetInput(buf)
						}
					}
					before := snap()
					fields := func() map[string]uint64 {
						m := vfFieldHashes(p.client)
						for k, v := range vfFieldHashes(p.listener) {
							m[k] = v
						}
						for k, v := range vfFieldHashes(p.client.kcp) {
							m[k] = v
						}
						for k, v := range vfFieldHashes(DefaultSnmp) {
							m[k] = v
						}
						return m
					}
					fb := fields() // per-field hashes of the unchanged state, for explanations
					check := func(kind string, b []byte, src net.Addr, where string) bool {
						_, _, _, ok, err := wire.Decrypt(wc, b)
						if err != nil {
							viol("C06:tooling", err.Error())
							return false
						}
						if ok {
							passed++ // not in the guaranteed class (or not a corruption of the covered bytes): not judged
							return true
						}
						feed(b, src)
						judged++
						byKind[kind]++
						after := snap()
						if after != before {
							viol("C06:failed-check-changes-state:"+kind+":"+where, fmt.Sprintf("a %s corruption of datagram #%d (%d bytes, to the %s) fails the integrity check but changed state: %v",
								kind, idx, len(data), where, vfDiffFields(fb, fields())))
							before, fb = after, fields()
							return len(u.Violations) < 5
						}
						return true
					}
					where := "client"
					if toListener {
						where = "listener-with-session"
						p.listener.sessionLock.RLock()
						if _, ok := p.listener.sessions[from.addr.String()]; !ok {
							where = "listener-without-session"
						}
						p.listener.sessionLock.RUnlock()
					}
					vfCorruptions(data, tb, bursts, func(kind string, b []byte) bool { return check(kind, b, from.addr, where) })
					if toListener {
						// the same from an address the listener has no session for (bit flips only)
						vfCorruptions(data, nil, nil, func(kind string, b []byte) bool { return check(kind, b, foreign, "listener-foreign-address") })
					}
					if idx <= 2 {
						// short and constant datagrams
						for l := 0; l <= 1500; l++ {
							for _, fill := range []byte{0x00, 0xff} {
								b := make([]byte, l)
								for k := range b {
									b[k] = fill
								}
								if !check("constant", b, from.addr, where) {
									break
								}
							}
						}
						for v := 0; v < 65536; v += hx.Pick(c, 17, 1) {
							if !check("two-bytes", []byte{byte(v), byte(v >> 8)}, from.addr, where) {
								break
							}
						}
					}
					return []time.Duration{p.net.Delay}
				}
				vfStdBody(p)
				if p.fail != "" {
					viol("C06:harness:"+p.sig, "the genuine traffic itself failed: "+p.fail)
				}
			})
			if out.Status != vrt.Done {
				viol("C06:run:"+out.Status.String(), fmt.Sprintf("execution ended %s: %s %s", out.Status, out.Fail, out.Stack))
			}
			u.Executions, u.NonTrivial, u.EndStatesN = judged+passed, judged, judged
			u.Notes = append(u.Notes, fmt.Sprintf("this shard: %d datagrams at their history positions, %d corruptions judged (fail the check), %d not judged (pass the check); by kind %v", dgrams, judged, passed, byKind))
			u.Samples = append(u.Samples, map[string]any{"cipher": ciph, "fec": fec, "corruption": "burst-31 at bit offset 200 of datagram #3, pattern ends-only", "expected": "deep hash unchanged"})
			if len(u.Violations) > 0 {
				u.Exhaustive = false
			}
			u.WallS = time.Since(start).Seconds()
			c.AddUnit(u)
		}
	}
	vfC06Loops(c)
}

// vfC06Loops: the same guarantee THROUGH the receive loops (the battery calls packetInput directly): after an exchange,
// every datagram too short to carry an integrity check (every length 0..27, two fills) and corrupted copies of genuine
// datagrams are put on the wire towards the dialled session and towards the listener (from the peer's and from a foreign
// address), on the plain and on the batch (recvmmsg) receive loop, while a reader is blocked on the destination. Time has
// to pass for the loops to run, so the oracle is functional: the blocked reader is not disturbed, no counter but
// InCsumErrors moves, no session appears or disappears, and a second exchange completes with the right bytes.
func vfC06Loops(c *hx.Ctx) {
	for ci, ciph := range []string{"aes-128", "salsa20", "aes-gcm", "none"} {
		for _, batch := range []bool{false, true} {
			name := fmt.Sprintf("through-the-receive-loops/cipher=%s/batch=%v", ciph, batch)
			if c.Skip(name) || (c.Of > 1 && (2*ci+map[bool]int{false: 0, true: 1}[batch])%c.Of != c.Shard) {
				continue
			}
			start := time.Now()
			u := &hx.Unit{Name: name, Kind: "enum", Exhaustive: true, Params: map[string]any{"cipher": ciph, "batch_receive_loop": batch, "lengths": "0..27", "fills": []int{0, 255},
				"corrupted_copies": "first, middle and last byte of every genuine datagram flipped", "destinations": "dialled session; listener from the peer's address; listener from a foreign address"}}
			var injected int64
			viol := func(sig, msg string) {
				if len(u.Violations) < 4 {
					u.Violations = append(u.Violations, c.NewViolation(name, u.Params, sig, msg, ""))
				}
			}
			cf := vfPairCfg{Cipher: ciph, SDS: -1, Stream: true, NoDelay: [4]int{1, 10, 2, 1}, Writes: []int{40}, WritesBack: []int{30}, ReadBuf: 4096, Pool: vrt.PoolPlain, HorizonS: 30}
			_, wc := vfBlockCrypt(ciph)
			if batch {
				cf.Batch = 1
			}
			out := vrt.Run(vrt.Config{Chooser: vfDefaultChooser{}, TimerEarlyCost: -1, Horizon: 30 * time.Second, MaxSteps: 3000000}, func() {
				p := vfPairSetup(cf)
				var genuine [2][][]byte // datagrams seen towards the client [0] and towards the listener [1]
				p.net.onSend = func(from, to *vfSock, data []byte) {
					if to == p.csock {
						genuine[0] = append(genuine[0], append([]byte(nil), data...))
					} else if to == p.lsock {
						genuine[1] = append(genuine[1], append([]byte(nil), data...))
					}
				}
				p.traffic()
				if p.fail != "" {
					viol("C06:harness:"+p.sig, "the genuine traffic itself failed: "+p.fail)
					return
				}
				p.mu.Lock()
				srv := p.server
				p.mu.Unlock()
				vrt.Sleep(300 * time.Millisecond) // everything acknowledged, both ends idle
				foreign := vfUDP(66, 6666)
				for round, dst := range []string{"client", "listener", "listener-foreign-address"} {
					target, sock, from, peer := p.client, p.csock, net.Addr(p.laddr), srv
					if dst != "client" {
						target, sock, from, peer = srv, p.lsock, net.Addr(p.caddr), p.client
					}
					if dst == "listener-foreign-address" {
						from = foreign
					}
					var bad [][]byte
					for l := 0; l < 28; l++ {
						for _, fill := range []byte{0x00, 0xff} {
							b := make([]byte, l)
							for k := range b {
								b[k] = fill
							}
							if _, _, _, ok, err := wire.Decrypt(wc, b); err == nil && !ok { // (20 zero bytes pass a bare CRC32: an empty payload)
								bad = append(bad, b)
							}
						}
					}
					gi := 0
					if dst != "client" {
						gi = 1
					}
					for _, g := range genuine[gi] {
						for _, at := range []int{0, len(g) / 2, len(g) - 1} {
							b := append([]byte(nil), g...)
							b[at] ^= 0x10
							if _, _, _, ok, err := wire.Decrypt(wc, b); err == nil && !ok { // the independent decoder says it fails the check
								bad = append(bad, b)
							}
						}
					}
					type res struct {
						n   int
						err error
						at  int64
					}
					done := vrt.MakeChan[res](1)
					buf := make([]byte, 256)
					target.SetReadDeadline(vrt.Now().Add(5 * time.Second))
					vrt.Go("blocked-reader", func() {
						n, err := target.Read(buf)
						done.Send(res{n, err, vrt.NowNS()})
					})
					vrt.Sleep(time.Millisecond)
					snmp := *DefaultSnmp.Copy()
					p.listener.sessionLock.RLock()
					ns := len(p.listener.sessions)
					p.listener.sessionLock.RUnlock()
					for _, b := range bad {
						sock.inject(from, b)
						injected++
					}
					vrt.Sleep(20 * time.Millisecond)
					after := *DefaultSnmp.Copy()
					snmp.InCsumErrors, after.InCsumErrors = 0, 0
					if dst == "listener-foreign-address" {
						// (the dialled session is not involved; the listener has no session for that address)
					}
					if snmp != after {
						viol("C06:failed-check-changes-state:counters:through-the-receive-loop:"+dst, fmt.Sprintf("%d datagrams that cannot pass the integrity check, sent to the %s, moved counters other than InCsumErrors: before %+v after %+v", len(bad), dst, snmp, after))
					}
					p.listener.sessionLock.RLock()
					ns2 := len(p.listener.sessions)
					p.listener.sessionLock.RUnlock()
					if ns2 != ns {
						viol("C06:failed-check-changes-state:sessions:through-the-receive-loop:"+dst, fmt.Sprintf("the listener had %d sessions before and %d after datagrams that cannot pass the integrity check", ns, ns2))
					}
					if done.Len() > 0 {
						r := done.Recv()
						viol("C06:failed-check-disturbs-a-blocked-reader:through-the-receive-loop:"+dst, fmt.Sprintf("a Read blocked on the %s returned (%d, %v) after datagrams that cannot pass the integrity check", dst, r.n, r.err))
						return
					}
					// a second exchange: the peer writes, the blocked reader gets exactly that
					msg := vfPayload(7, 25+round, round)
					if _, err := peer.Write(msg); err != nil {
						viol("C06:harness:second-exchange", fmt.Sprintf("Write failed: %v", err))
						return
					}
					r := done.Recv()
					if r.err != nil || !bytes.Equal(buf[:r.n], msg) {
						viol("C06:failed-check-has-an-effect:second-exchange:through-the-receive-loop:"+dst, fmt.Sprintf("after datagrams that cannot pass the integrity check the next message to the %s was read as (%d bytes, %v), expected %d bytes", dst, r.n, r.err, len(msg)))
						return
					}
					vrt.Sleep(300 * time.Millisecond)
				}
				p.teardown()
			})
			if out.Status != vrt.Done {
				viol("C06:run:"+out.Status.String()+":through-the-receive-loop", fmt.Sprintf("execution ended %s: %s %s", out.Status, out.Fail, out.Stack))
			}
			u.Executions, u.NonTrivial, u.EndStatesN = injected, injected, injected
			if len(u.Violations) > 0 {
				u.Exhaustive = false
			}
			u.WallS = time.Since(start).Seconds()
			c.AddUnit(u)
		}
	}
}

// vfDefaultChooser always takes the default alternative.
type vfDefaultChooser struct{}

func (vfDefaultChooser) Choose(kind vrt.Kind, n int, costs []int8, label string) int { return 0 }

func init() { hx.Register("C06", vfC06) }
