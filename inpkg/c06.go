//go:build verif

package kcp

import (
	"fmt"
	"net"
	"time"

	"verif/hx"
	"verif/vrt"
	"verif/wire"
)

// C06: packets failing the integrity check have no effect at all.
//
// A real session pair runs (default schedule); whenever a genuine datagram is about to be delivered, the
// harness first feeds the destination's real packetInput a battery of corruptions of exactly that
// datagram (the state of the destination is the state at that point of the history). The independent
// decoder decides whether a corrupted datagram fails the check (exact also under CFB error
// propagation); if it does, a reflective deep hash of client, listener, all sessions, FEC codecs,
// counters (except InCsumErrors) and pool occupancy must be identical before and after.

type vfCorruption struct {
	kind string
	data []byte
}

// vfCorruptions enumerates the battery for one datagram.
func vfCorruptions(dg []byte, tagBytes []int, burstLens []int, emit func(kind string, b []byte) bool) {
	n := len(dg) * 8
	buf := make([]byte, len(dg))
	// single-bit flips
	for i := 0; i < n; i++ {
		copy(buf, dg)
		buf[i/8] ^= 1 << uint(i%8)
		if !emit("bit-flip", buf) {
			return
		}
	}
	// error bursts of length L at every bit offset: all bits flipped / only the two ends flipped
	for _, L := range burstLens {
		for i := 0; i+L <= n; i++ {
			for pat := 0; pat < 2; pat++ {
				if pat == 1 && L < 3 {
					continue
				}
				copy(buf, dg)
				for k := 0; k < L; k++ {
					if pat == 0 || k == 0 || k == L-1 {
						buf[(i+k)/8] ^= 1 << uint((i+k)%8)
					}
				}
				if !emit(fmt.Sprintf("burst-%d", L), buf) {
					return
				}
			}
		}
	}
	// every substitution of a byte of the stored CRC / tag
	for _, pos := range tagBytes {
		if pos >= len(dg) {
			continue
		}
		for v := 0; v < 256; v++ {
			if byte(v) == dg[pos] {
				continue
			}
			copy(buf, dg)
			buf[pos] = byte(v)
			if !emit("crc-or-tag-byte", buf) {
				return
			}
		}
	}
	// truncations and extensions
	for l := 0; l < len(dg); l++ {
		if !emit("truncated", dg[:l]) {
			return
		}
	}
	for _, extra := range []int{1, 2, 16, 100} {
		if len(dg)+extra <= 1500 {
			e := append(append([]byte{}, dg...), make([]byte, extra)...)
			if !emit("extended", e) {
				return
			}
		}
	}
}

func vfC06(c *hx.Ctx) {
	c.Rule("for every datagram of a traffic history between a real client and listener (both directions, every cipher, FEC off/on) and at its position in the history: every single-bit flip, every burst of length L " +
		"(quick: L in {2,3,4,8,16,24,31,32}; thorough: 2..32) at every bit offset in two patterns, every substitution of a stored CRC/tag byte, every truncation, some extensions; plus short and constant datagrams; " +
		"fed to the destination's real packetInput (listener: with and without a session for the source address). Cases the independent decoder shows to fail the check must leave a reflective deep hash of all state unchanged. " +
		"Non-trivial = corrupted datagrams that fail the check (counted); those that happen to pass are counted separately and not judged.")
	c.Assume("the deep hash skips only scratch memory that carries no state between calls (staging/encode caches) and synchronisation objects; the skip list is in inpkg/deephash.go")
	ciphers := []string{"aes-128", "aes-192", "aes-256", "sm4", "twofish", "3des", "cast5", "blowfish", "tea", "xtea", "salsa20", "xor", "none", "aes-gcm"}
	bursts := []int{2, 3, 4, 8, 16, 24, 31, 32}
	if !c.Quick() {
		bursts = nil
		for l := 2; l <= 32; l++ {
			bursts = append(bursts, l)
		}
	}
	cfgIdx := 0
	for _, ciph := range ciphers {
		for _, fec := range [][2]int{{0, 0}, {2, 1}} {
			cfgIdx++
			name := fmt.Sprintf("battery/cipher=%s/fec=%d,%d", ciph, fec[0], fec[1])
			if c.Skip(name) {
				continue
			}
			start := time.Now()
			u := &hx.Unit{Name: name, Kind: "enum", Exhaustive: true, Params: map[string]any{"cipher": ciph, "fec": fec, "burst_lengths": bursts, "writes": []int{40, 25}}}
			var judged, passed, dgrams int64
			byKind := map[string]int64{}
			viol := func(sig, msg string) {
				for _, v := range u.Violations {
					if v.Signature == sig {
						v.Count++
						return
					}
				}
				if len(u.Violations) < 5 {
					u.Violations = append(u.Violations, c.NewViolation(name, u.Params, sig, msg, ""))
				}
			}
			cf := vfPairCfg{Cipher: ciph, DS: fec[0], PS: fec[1], SDS: -1, Stream: true, NoDelay: [4]int{1, 10, 2, 1}, Writes: []int{40, 25}, WritesBack: []int{30}, ReadBuf: 4096,
				Pool: vrt.PoolPlain, HorizonS: 30}
			_, wc := vfBlockCrypt(ciph)
			var tagBytes []int
			if ciph == "aes-gcm" {
				tagBytes = nil // filled per datagram: the last 16 bytes
			} else {
				tagBytes = []int{16, 17, 18, 19}
			}
			out := vrt.Run(vrt.Config{Chooser: vfDefaultChooser{}, TimerEarlyCost: -1, Horizon: 30 * time.Second, MaxSteps: 3000000}, func() {
				p := vfPairSetup(cf)
				foreign := vfUDP(66, 6666)
				snap := func() uint64 {
					st := vrt.GetPoolStats()
					p.listener.sessionLock.RLock()
					ns := len(p.listener.sessions)
					p.listener.sessionLock.RUnlock()
					return vfDeepHash(p.client, p.listener, DefaultSnmp, st.Outstanding, ns)
				}
				idx := 0
				p.net.fate = func(from, to *vfSock, data []byte, _ int) []time.Duration {
					idx++
					mine := c.Of <= 1 || idx%c.Of == c.Shard
					if !mine || time.Now().After(c.Deadline) || to == nil {
						if mine && to != nil {
							u.Exhaustive, u.CapHit = false, "internal deadline"
						}
						return []time.Duration{p.net.Delay}
					}
					dgrams++
					tb := tagBytes
					if ciph == "aes-gcm" {
						tb = nil
						for k := len(data) - 16; k < len(data); k++ {
							tb = append(tb, k)
						}
					}
					toListener := to == p.lsock
					feed := func(b []byte, src net.Addr) {
						buf := make([]byte, len(b), 1500)
						copy(buf, b)
						if toListener {
							p.listener.packetInput(buf, src)
						} else {
							p.client.packetInput(buf)
						}
					}
					before := snap()
					fields := func() map[string]uint64 {
						m := vfFieldHashes(p.client)
						for k, v := range vfFieldHashes(p.listener) {
							m[k] = v
						}
						for k, v := range vfFieldHashes(p.client.kcp) {
							m[k] = v
						}
						for k, v := range vfFieldHashes(DefaultSnmp) {
							m[k] = v
						}
						return m
					}
					fb := fields() // per-field hashes of the unchanged state, for explanations
					check := func(kind string, b []byte, src net.Addr, where string) bool {
						_, _, _, ok, err := wire.Decrypt(wc, b)
						if err != nil {
							viol("C06:tooling", err.Error())
							return false
						}
						if ok {
							passed++ // not in the guaranteed class (or not a corruption of the covered bytes): not judged
							return true
						}
						feed(b, src)
						judged++
						byKind[kind]++
						after := snap()
						if after != before {
							viol("C06:failed-check-changes-state:"+kind+":"+where, fmt.Sprintf("a %s corruption of datagram #%d (%d bytes, to the %s) fails the integrity check but changed state: %v",
								kind, idx, len(data), where, vfDiffFields(fb, fields())))
							before, fb = after, fields()
							return len(u.Violations) < 5
						}
						return true
					}
					where := "client"
					if toListener {
						where = "listener-with-session"
						p.listener.sessionLock.RLock()
						if _, ok := p.listener.sessions[from.addr.String()]; !ok {
							where = "listener-without-session"
						}
						p.listener.sessionLock.RUnlock()
					}
					vfCorruptions(data, tb, bursts, func(kind string, b []byte) bool { return check(kind, b, from.addr, where) })
					if toListener {
						// the same from an address the listener has no session for (bit flips only)
						vfCorruptions(data, nil, nil, func(kind string, b []byte) bool { return check(kind, b, foreign, "listener-foreign-address") })
					}
					if idx <= 2 {
						// short and constant datagrams
						for l := 0; l <= 1500; l++ {
							for _, fill := range []byte{0x00, 0xff} {
								b := make([]byte, l)
								for k := range b {
									b[k] = fill
								}
								if !check("constant", b, from.addr, where) {
									break
								}
							}
						}
						for v := 0; v < 65536; v += hx.Pick(c, 17, 1) {
							if !check("two-bytes", []byte{byte(v), byte(v >> 8)}, from.addr, where) {
								break
							}
						}
					}
					return []time.Duration{p.net.Delay}
				}
				vfStdBody(p)
				if p.fail != "" {
					viol("C06:harness:"+p.sig, "the genuine traffic itself failed: "+p.fail)
				}
			})
			if out.Status != vrt.Done {
				viol("C06:run:"+out.Status.String(), fmt.Sprintf("execution ended %s: %s %s", out.Status, out.Fail, out.Stack))
			}
			u.Executions, u.NonTrivial, u.EndStatesN = judged+passed, judged, judged
			u.Notes = append(u.Notes, fmt.Sprintf("this shard: %d datagrams at their history positions, %d corruptions judged (fail the check), %d not judged (pass the check); by kind %v", dgrams, judged, passed, byKind))
			u.Samples = append(u.Samples, map[string]any{"cipher": ciph, "fec": fec, "corruption": "burst-31 at bit offset 200 of datagram #3, pattern ends-only", "expected": "deep hash unchanged"})
			if len(u.Violations) > 0 {
				u.Exhaustive = false
			}
			u.WallS = time.Since(start).Seconds()
			c.AddUnit(u)
		}
	}
}

// vfDefaultChooser always takes the default alternative.
type vfDefaultChooser struct{}

func (vfDefaultChooser) Choose(kind vrt.Kind, n int, costs []int8, label string) int { return 0 }

func init() { hx.Register("C06", vfC06) }
