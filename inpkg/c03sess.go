//go:build verif

package kcp

import (
	"bytes"
	"fmt"
	"time"

	"verif/hx"
	"verif/vrt"
)

// C03 on whole sessions: two dialled sessions talk to each other; the reader's application stops reading for a while, the
// writer keeps writing (it assumes a window of 32 before it is told, the reader's window is smaller and in force from the
// first datagram on, so the writer overshoots and keeps retransmitting what the reader cannot take), then the reader resumes. Enumerated: receive window x pause length (up
// to well beyond twenty retransmissions of one segment) x pause point x no-delay/normal mode x congestion control x the
// fate of the first K datagrams after the pause ended. Oracle: every Write succeeds, the reader gets exactly what was
// written, nothing is closed by itself.
func vfC03sess(c *hx.Ctx) {
	c.ByUnit = true
	type cfg struct {
		rcv   int
		nd    [4]int
		pause time.Duration
		after int
	}
	var cfgs []cfg
	for _, rcv := range []int{2, 4, 16} {
		for _, nd := range [][4]int{{1, 10, 2, 1}, {0, 40, 0, 0}} {
			for _, pause := range []time.Duration{800 * time.Millisecond, 6 * time.Second, 50 * time.Second} {
				for _, after := range []int{0, 3} {
					if c.Quick() && (rcv == 16 && after == 3 || nd[0] == 0 && pause < time.Second) {
						continue
					}
					cfgs = append(cfgs, cfg{rcv, nd, pause, after})
				}
			}
		}
	}
	per := (len(cfgs) + max(c.Of, 1) - 1) / max(c.Of, 1)
	left := time.Until(c.Deadline)
	for _, x := range cfgs {
		x := x
		cf := vfPairCfg{SDS: -1, Stream: false, NoDelay: x.nd, SndWnd: 128, RcvWnd: x.rcv, ReadBuf: 4096, Pool: vrt.PoolEager, Preempt: 1, Switch: 1, Select: 1,
			Owners: []string{"C03:"}, HorizonS: 1500, K: hx.Pick(c, 4, 6), Fates: []int{vfDeliver, vfDrop}}
		const nmsg = 40
		body := func(p *vfPair) {
			// fates apply to the first K datagrams after the reader resumed
			resumed := false
			seen := 0
			inner := p.net.fate
			p.net.fate = func(from, to *vfSock, data []byte, idx int) []time.Duration {
				if !resumed || seen >= cf.K {
					return []time.Duration{p.net.Delay}
				}
				seen++
				return inner(from, to, data, 0)
			}
			// two dialled sessions talking to each other (no listener): both are configured before any traffic, so the reader's
			// small window is in force from the first datagram on while the writer still assumes 32
			aAddr, bAddr := vfUDP(21, 5000), vfUDP(22, 5001)
			var a, b *UDPSession
			var aSock, bSock *vfSock
			vrt.Daemons(func() {
				aSock, bSock = p.net.socket(aAddr), p.net.socket(bAddr)
				a, _ = NewConn3(vfConv+5, bAddr, nil, 0, 0, aSock)
				b, _ = NewConn3(vfConv+5, aAddr, nil, 0, 0, bSock)
			})
			for _, s := range []*UDPSession{a, b} {
				s.SetNoDelay(x.nd[0], x.nd[1], x.nd[2], x.nd[3])
				s.SetStreamMode(false)
			}
			a.SetWindowSize(128, 32)
			b.SetWindowSize(32, x.rcv)
			defer func() {
				a.Close()
				b.Close()
				aSock.Close()
				bSock.Close()
			}()
			var wg vrt.WaitGroup
			wg.Add(2)
			var want []byte
			vrt.Go("app-writer", func() {
				defer wg.Done()
				for i := 0; i < nmsg; i++ {
					m := vfPayload(2, 100, i*100)
					if _, err := a.Write(m); err != nil {
						p.bad("C03:session-write-fails-while-the-peer-is-stalled", "Write #%d failed: %v (receive window %d, pause %s after %d messages)", i, err, x.rcv, x.pause, x.after)
						return
					}
					p.mu.Lock()
					want = append(want, m...)
					p.mu.Unlock()
				}
			})
			vrt.Go("app-reader", func() {
				defer wg.Done()
				s := b
				var got []byte
				buf := make([]byte, 4096)
				for i := 0; i < nmsg; i++ {
					if i == x.after {
						vrt.Sleep(x.pause)
						resumed = true
					}
					s.SetReadDeadline(vrt.Now().Add(400 * time.Second)) // probes back off to 120 s, retransmissions to 60 s
					n, err := s.Read(buf)
					if err != nil {
						p.bad("C03:session-transfer-does-not-resume", "after a pause of %s the reader got %d of %d messages, then: %v (receive window %d)", x.pause, i, nmsg, err, x.rcv)
						return
					}
					got = append(got, buf[:n]...)
				}
				p.mu.Lock()
				w := append([]byte(nil), want...)
				p.mu.Unlock()
				if !bytes.Equal(got, w[:min(len(got), len(w))]) || len(got) != nmsg*100 {
					p.bad("C03:session-stream-differs", "the reader got %d bytes that differ from the %d written", len(got), len(w))
				}
			})
			wg.Wait()
			if !p.failed() {
				for i := 0; i < 4000; i++ {
					a.mu.Lock()
					ws := a.kcp.WaitSnd()
					a.mu.Unlock()
					if ws == 0 {
						break
					}
					vrt.Sleep(100 * time.Millisecond)
				}
				if a.isClosed() || b.isClosed() {
					p.bad("C03:session-closed-by-itself", "a session closed itself although nobody called Close (writer closed: %v, reader closed: %v)", a.isClosed(), b.isClosed())
				}
			}
			p.teardown()
		}
		c.UnitBudget = max(left/time.Duration(max(per, 1)), 3*time.Second)
		pr := vfPairParams(cf, 0)
		pr["pause"], pr["pause_after_messages"] = x.pause.String(), x.after
		c.Explore(fmt.Sprintf("session-stalled-reader/rcv_wnd=%d/nodelay=%v/pause=%s after %d messages", x.rcv, x.nd, x.pause, x.after), pr, 0, vfPairRun(cf, 0, body))
	}
	c.ByUnit = false
}
