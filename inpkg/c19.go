//go:build verif

package kcp

import (
	"encoding/binary"
	"bytes"
	"fmt"
	"time"

	"verif/hx"
	"verif/vrt"
	"verif/wire"
)

// C19: out-of-band messages — intact or absent, never to another session, never disturbing the stream.

func vfOOBPayload(n, tag int) []byte {
	b := make([]byte, n)
	for i := range b {
		b[i] = byte(0x80 | (i*5+tag*17)&0x7f)
	}
	return b
}

type vfOOBLog struct {
	mu  vrt.Mutex
	got [][]byte
}

func (l *vfOOBLog) handler() OOBCallBackType {
	return func(b []byte) {
		l.mu.Lock()
		l.got = append(l.got, append([]byte(nil), b...))
		l.mu.Unlock()
	}
}

func (l *vfOOBLog) list() [][]byte {
	l.mu.Lock()
	defer l.mu.Unlock()
	return append([][]byte(nil), l.got...)
}

func vfC19(c *hx.Ctx) {
	c.Rule("session pairs with FEC on the virtual network: (a) every payload length 0..GetOOBMaxSize()+1 between stream writes on a clean path (must arrive intact; max+1 refused); (b) lengths {0,1,max-1,max} under every fate vector over the first K datagrams " +
		"and every single scheduling deviation, OOB in both directions interleaved with stream traffic (handler sees only intact copies of what was sent, stream completes, wire layout and FEC id discipline hold); " +
		"(c) sessions without FEC refuse; (d) two clients on one listener; (e) a new client session on the same socket while the old conversation's OOB is still in flight. Non-trivial = a fault, a deviation, or a boundary length.")
	c.ByUnit = true
	hx.NoCache = false
	base := vfPairCfg{DS: 2, PS: 1, SDS: -1, Stream: true, NoDelay: [4]int{1, 10, 2, 1}, Writes: []int{300, 1200, 50}, WritesBack: []int{100}, ReadBuf: 4096,
		Pool: vrt.PoolEager, Preempt: 1, Switch: 1, Select: 1, Wire: true, Owners: []string{"C19:", "C09:", "C10:", "C01:", "C02:"}, HorizonS: 30}
	// (a) every length
	for _, ciph := range []string{"", "aes-128", "aes-gcm"} {
		cf := base
		cf.Cipher = ciph
		body := func(p *vfPair) {
			var slog vfOOBLog
			max := p.client.GetOOBMaxSize()
			L := vrt.Choose(max+2, "payload length")
			msg := vfOOBPayload(L, 1)
			var wg vrt.WaitGroup
			wg.Add(1)
			vrt.Go("traffic", func() { defer wg.Done(); p.traffic() })
			// wait for the accepted session, then register its handler
			var srv *UDPSession
			for i := 0; i < 200 && srv == nil; i++ {
				vrt.Sleep(time.Millisecond)
				p.mu.Lock()
				srv = p.server
				p.mu.Unlock()
			}
			if srv == nil {
				p.bad("C19:setup", "no accepted session")
				return
			}
			srv.SetOOBHandler(slog.handler())
			err := p.client.SendOOB(msg)
			wg.Wait()
			vrt.Idle(200 * time.Millisecond)
			got := slog.list()
			switch {
			case L > max && err == nil:
				p.bad("C19:oversize-accepted", "SendOOB of %d bytes accepted, GetOOBMaxSize is %d", L, max)
			case L <= max && err != nil:
				p.bad("C19:legal-size-refused", "SendOOB of %d bytes (max %d) failed: %v", L, max, err)
			case L <= max && len(got) != 1:
				p.bad("C19:oob-lost-on-a-clean-path", "a %d-byte OOB message sent on a loss-free path arrived %d times", L, len(got))
			case L <= max && !bytes.Equal(got[0], msg):
				p.bad("C19:oob-altered", "a %d-byte OOB message arrived as %d bytes / different content (first difference at %d)", L, len(got[0]), vfFirstDiff(got[0], msg))
			case L > max && len(got) != 0:
				p.bad("C19:refused-oob-delivered", "a refused OOB message was delivered")
			}
			if p.maxDgram > 1400 {
				p.bad("C10:datagram-exceeds-mtu", "an OOB datagram of %d bytes exceeds the session MTU 1400", p.maxDgram)
			}
			p.teardown()
		}
		c.UnitBudget = 25 * time.Second
		c.Explore("sizes/cipher="+ciph, map[string]any{"cipher": ciph, "fec": []int{2, 1}, "lengths": "0..GetOOBMaxSize()+1"}, 0, vfPairRun(cf, 0, body))
	}
	// (b) boundary lengths under faults and scheduling deviations, both directions, two-sided handlers
	for _, ciph := range []string{"", "aes-128"} {
		for _, mode := range []string{"fates", "sched"} {
			cf := base
			cf.Cipher = ciph
			bound := 0
			if mode == "fates" {
				cf.K = hx.Pick(c, 5, 6)
			} else {
				bound = hx.Pick(c, 1, 3)
			}
			body := func(p *vfPair) {
				var slog, clog vfOOBLog
				max := p.client.GetOOBMaxSize()
				lens := []int{0, 1, max - 1, max}
				sent := map[string]bool{}
				var smu vrt.Mutex
				p.client.SetOOBHandler(clog.handler())
				var wg vrt.WaitGroup
				wg.Add(2)
				vrt.Go("traffic", func() { defer wg.Done(); p.traffic() })
				vrt.Go("oob-client", func() {
					defer wg.Done()
					for i, L := range lens {
						m := vfOOBPayload(L, 10+i)
						smu.Lock()
						sent["c"+string(m)] = true
						smu.Unlock()
						if err := p.client.SendOOB(m); err != nil {
							p.bad("C19:legal-size-refused", "SendOOB(%d) failed: %v", L, err)
						}
						vrt.Sleep(2 * time.Millisecond)
					}
				})
				var srv *UDPSession
				for i := 0; i < 3000 && srv == nil; i++ {
					vrt.Sleep(time.Millisecond)
					p.mu.Lock()
					srv = p.server
					p.mu.Unlock()
				}
				if srv != nil {
					srv.SetOOBHandler(slog.handler())
					for i, L := range []int{3, max} {
						m := vfOOBPayload(L, 40+i)
						smu.Lock()
						sent["s"+string(m)] = true
						smu.Unlock()
						srv.SendOOB(m)
					}
				}
				wg.Wait()
				if !p.failed() {
					p.drainBacklog()
				}
				vrt.Idle(600 * time.Millisecond)
				for _, g := range slog.list() {
					if !sent["c"+string(g)] {
						p.bad("C19:oob-altered-or-invented", "the accepted session's handler got a %d-byte message the client never sent", len(g))
					}
				}
				for _, g := range clog.list() {
					if !sent["s"+string(g)] {
						p.bad("C19:oob-altered-or-invented", "the client's handler got a %d-byte message the server never sent", len(g))
					}
				}
				// the stream is checked by traffic(); the wire by the tracker (OOB consumes no FEC id, parity covers data only)
				if want := vfExpected(0, cf.Writes); !bytes.Equal(p.wireC2S.stream(), want) && !p.failed() {
					p.bad("C19:stream-on-the-wire-disturbed", "the byte stream reassembled from the wire differs from what was written while OOB messages were interleaved")
				}
				p.teardown()
			}
			c.UnitBudget = 25 * time.Second
			pr := vfPairParams(cf, bound)
			pr["oob_lengths"] = "0, 1, max-1, max (client) and 3, max (server)"
			c.Explore(fmt.Sprintf("mixed/%s/cipher=%s", mode, ciph), pr, bound, vfPairRun(cf, bound, body))
		}
	}
	// (c) no FEC: refused
	{
		cf := base
		cf.DS, cf.PS = 0, 0
		body := func(p *vfPair) {
			if p.client.GetOOBMaxSize() != 0 {
				p.bad("C19:max-size-without-fec", "GetOOBMaxSize() = %d without FEC", p.client.GetOOBMaxSize())
			}
			if p.client.SendOOB([]byte("x")) == nil {
				p.bad("C19:sendoob-without-fec-accepted", "SendOOB succeeded on a session without FEC")
			}
			if p.client.SetOOBHandler(func([]byte) {}) == nil {
				p.bad("C19:handler-without-fec-accepted", "SetOOBHandler succeeded on a session without FEC")
			}
			vfStdBody(p)
		}
		c.UnitBudget = 10 * time.Second
		c.Explore("no-fec", vfPairParams(cf, 0), 0, vfPairRun(cf, 0, body))
	}
	// (c') FEC at the peer only: the session without FEC receives FEC packets (its decoder is created lazily) and must
	// still refuse out-of-band calls, before, during and after that traffic; the peer's stream stays what was written
	for _, side := range []string{"client-without-fec", "listener-without-fec"} {
		side := side
		cf := base
		cf.Wire = false
		cf.WritesBack = []int{100, 700, 30}
		cf.K = 2
		cf.Fates = []int{vfDeliver, vfDrop}
		if side == "client-without-fec" {
			cf.DS, cf.PS, cf.SDS, cf.SPS = 0, 0, 2, 1
		} else {
			cf.DS, cf.PS, cf.SDS, cf.SPS = 2, 1, 0, 0
		}
		body := func(p *vfPair) {
			forged := wire.EncodeSegment(wire.Seg{Conv: vfConv, Cmd: wire.CmdPush, Wnd: 32, Sn: 3, Data: []byte("FORGED-STREAM-BYTES")}, -1)
			probe := func(s *UDPSession, when string) {
				if s == nil {
					return
				}
				if s.SendOOB(forged) == nil {
					p.bad("C19:sendoob-without-fec-accepted:"+when, "SendOOB succeeded on a session created without FEC (%s, %s)", side, when)
				}
				if s.SetOOBHandler(func([]byte) {}) == nil {
					p.bad("C19:handler-without-fec-accepted:"+when, "SetOOBHandler succeeded on a session created without FEC (%s, %s)", side, when)
				}
			}
			plain := func() *UDPSession {
				if side == "client-without-fec" {
					return p.client
				}
				p.mu.Lock()
				defer p.mu.Unlock()
				return p.server
			}
			// the end WITH FEC sends out-of-band messages to the end without: nobody can have registered a handler there, the
			// messages go nowhere, and the streams (and the process) are not disturbed
			toPlain := func(i int) {
				var s *UDPSession
				if side == "client-without-fec" {
					p.mu.Lock()
					s = p.server
					p.mu.Unlock()
				} else {
					s = p.client
				}
				if s != nil {
					if err := s.SendOOB(vfPayload(8, 40+i, i)); err != nil {
						p.bad("C19:sendoob-refused", "SendOOB of %d bytes on the session with FEC failed: %v", 40+i, err)
					}
				}
			}
			probe(plain(), "before-traffic")
			toPlain(0)
			var wg vrt.WaitGroup
			wg.Add(1)
			vrt.Go("traffic", func() { defer wg.Done(); p.traffic() })
			vrt.Sleep(12 * time.Millisecond)
			probe(plain(), "after-receiving-fec-packets")
			toPlain(1)
			wg.Wait()
			probe(plain(), "after-traffic")
			toPlain(2)
			vrt.Sleep(20 * time.Millisecond)
			if !p.failed() {
				p.drainBacklog()
			}
			p.teardown()
		}
		c.UnitBudget = 10 * time.Second
		c.Explore("fec-at-the-peer-only/"+side, vfPairParams(cf, 0), 0, vfPairRun(cf, 0, body))
	}
	// (c'') an out-of-band message as the LAST thing handed to the transmit pipeline: what was written just before must not
	// wait for it, and a Close right afterwards still sends the tail of the stream
	for _, ciph := range []string{"", "aes-gcm"} {
		cf := base
		cf.Cipher = ciph
		cf.Wire = false
		cf.K = 0
		body := func(p *vfPair) {
			var slog vfOOBLog
			var wg vrt.WaitGroup
			wg.Add(1)
			m1, m2 := vfPayload(6, 300, 0), vfPayload(6, 500, 300)
			vrt.Go("app-server", func() {
				defer wg.Done()
				p.listener.SetReadDeadline(vrt.Now().Add(time.Second))
				s, err := p.listener.AcceptKCP()
				if err != nil {
					p.bad("C19:stream-delayed-by-a-trailing-oob", "nothing reached the listener within 1 s of a Write followed by SendOOB on a loss-free path: %v", err)
					return
				}
				p.mu.Lock()
				p.server = s
				p.mu.Unlock()
				p.tune(s)
				s.SetOOBHandler(slog.handler())
				buf := make([]byte, 4096)
				for i, m := range [][]byte{m1, m2} {
					var got []byte
					t0 := vrt.NowNS()
					for len(got) < len(m) {
						s.SetReadDeadline(vrt.Now().Add(2 * time.Second))
						n, err := s.Read(buf)
						if err != nil {
							p.bad("C19:stream-tail-lost-after-a-trailing-oob", "message %d written before an out-of-band message (and a Close) never arrived: %v", i+1, err)
							return
						}
						got = append(got, buf[:n]...)
					}
					if !bytes.Equal(got, m) {
						p.bad("C19:stream-corrupted", "message %d differs", i+1)
						return
					}
					if i == 0 {
						if d := time.Duration(vrt.NowNS() - t0); d > 60*time.Millisecond {
							p.bad("C19:stream-delayed-by-a-trailing-oob", "on a loss-free 5 ms path the message written just before an out-of-band message took %s to become readable", d)
							return
						}
					}
				}
			})
			p.client.Write(m1)
			p.client.SendOOB([]byte("first"))
			vrt.Sleep(300 * time.Millisecond)
			p.client.Write(m2)
			p.client.SendOOB([]byte("bye"))
			p.client.Close()
			wg.Wait()
			p.teardown()
		}
		c.UnitBudget = 10 * time.Second
		c.Explore("oob-last-in-a-burst/cipher="+ciph, vfPairParams(cf, 1), hx.Pick(c, 1, 2), vfPairRun(cf, 1, body))
	}
	// (d) two clients on one listener, (e) new conversation on the same socket while old OOB is in flight
	for _, scen := range []string{"two-clients", "reconnect-same-address", "reconnect-listener-side"} {
		scen := scen
		cf := base
		cf.K = hx.Pick(c, 3, 5)
		cf.Fates = []int{vfDeliver, vfDrop, vfReorder}
		if scen == "reconnect-listener-side" {
			// no delayed copies of the old conversation's first data packet: a late sn=0 segment of another conversation
			// legitimately starts that conversation again (C11); here the only stale traffic is out-of-band
			cf.Fates = []int{vfDeliver, vfDrop}
		}
		cf.Wire = false
		body := func(p *vfPair) {
			var log1, log2, clog2 vfOOBLog
			var wg vrt.WaitGroup
			wg.Add(1)
			vrt.Go("traffic", func() { defer wg.Done(); p.traffic() })
			var srv1 *UDPSession
			for i := 0; i < 3000 && srv1 == nil; i++ {
				vrt.Sleep(time.Millisecond)
				p.mu.Lock()
				srv1 = p.server
				p.mu.Unlock()
			}
			if srv1 == nil {
				return
			}
			srv1.SetOOBHandler(log1.handler())
			wg.Wait()
			if scen == "two-clients" {
				var second *UDPSession
				vrt.Daemons(func() {
					second, _ = NewConn3(vfConv+7, p.laddr, nil, cf.DS, cf.PS, p.net.socket(vfUDP(3, 40001)))
				})
				second.Write([]byte("second client says hello"))
				srv2, err := p.listener.AcceptKCP()
				if err != nil {
					p.bad("C19:setup", "second accept: %v", err)
					return
				}
				srv2.SetOOBHandler(log2.handler())
				m1, m2 := vfOOBPayload(33, 1), vfOOBPayload(34, 2)
				p.client.SendOOB(m1)
				second.SendOOB(m2)
				vrt.Idle(300 * time.Millisecond)
				for _, g := range log1.list() {
					if !bytes.Equal(g, m1) {
						p.bad("C19:oob-delivered-to-another-session", "session 1's handler got a message that its own peer did not send")
					}
				}
				for _, g := range log2.list() {
					if !bytes.Equal(g, m2) {
						p.bad("C19:oob-delivered-to-another-session", "session 2's handler got a message that its own peer did not send")
					}
				}
				second.Close()
				srv2.Close()
			} else if scen == "reconnect-listener-side" {
				// the client application closes its session (conversation a) while OOB messages it sent are still under way, and
				// opens conversation b from the same address; the listener accepts b, then the stale messages of a arrive.
				// They must not reach b's handler, and they must not disturb b's stream.
				p.client.Close()
				var c2 *UDPSession
				vrt.Daemons(func() { c2, _ = NewConn3(vfConv+9, p.laddr, nil, cf.DS, cf.PS, p.csock) })
				m1, m2 := vfPayload(7, 100, 0), vfPayload(7, 200, 100)
				c2.Write(m1)
				p.listener.SetReadDeadline(vrt.Now().Add(5 * time.Second))
				srv2, err := p.listener.AcceptKCP()
				if err != nil {
					p.bad("C19:setup", "accept of the new conversation: %v", err)
					return
				}
				srv2.SetOOBHandler(log2.handler())
				readAll := func(want []byte, what string) bool {
					var got []byte
					buf := make([]byte, 4096)
					for len(got) < len(want) {
						srv2.SetReadDeadline(vrt.Now().Add(5 * time.Second))
						n, err := srv2.Read(buf)
						if err != nil {
							p.bad("C19:stale-oob-disturbs-the-stream-of-the-new-conversation", "after out-of-band messages of the previous conversation at this address arrived, the new session's Read of %s failed after %d of %d bytes: %v", what, len(got), len(want), err)
							return false
						}
						got = append(got, buf[:n]...)
					}
					if !bytes.Equal(got, want) {
						p.bad("C19:stream-corrupted", "the new session delivered other bytes than its peer wrote (%s)", what)
						return false
					}
					return true
				}
				when := vrt.Choose(2, "stale OOB arrives before/after the first message was read")
				stale := func() {
					for i := 0; i < 2; i++ {
						pl := vfOOBPayload(10+i, 40+i)
						d := make([]byte, fecHeaderSizePlus2+convSize+len(pl))
						binary.LittleEndian.PutUint32(d, 0xffffffff)
						binary.LittleEndian.PutUint16(d[4:], typeOOB)
						binary.LittleEndian.PutUint16(d[6:], uint16(2+convSize+len(pl)))
						binary.LittleEndian.PutUint32(d[fecHeaderSizePlus2:], vfConv)
						copy(d[fecHeaderSizePlus2+convSize:], pl)
						p.lsock.inject(p.caddr, d)
					}
					vrt.Sleep(5 * time.Millisecond)
				}
				if when == 0 {
					stale()
				}
				if !readAll(m1, "the first message") {
					return
				}
				if when == 1 {
					stale()
				}
				c2.Write(m2)
				if !readAll(m2, "the message written after the stale OOB arrived") {
					return
				}
				if n := len(log2.list()); n > 0 {
					p.bad("C19:oob-delivered-to-another-session:new-conversation-on-the-same-address:listener-side", "%d OOB message(s) addressed to the old conversation (conv %#x) were delivered to the handler of the accepted session of the new conversation (conv %#x)", n, vfConv, vfConv+9)
				}
				c2.Close()
				srv2.Close()
			} else {
				// the client application closes its session and opens a new conversation on the same socket;
				// the server's old session, not yet aware, still sends OOB messages to that address
				p.client.Close()
				var c2 *UDPSession
				vrt.Daemons(func() { c2, _ = NewConn3(vfConv+9, p.laddr, nil, cf.DS, cf.PS, p.csock) })
				c2.SetOOBHandler(clog2.handler())
				for i := 0; i < 3; i++ {
					srv1.SendOOB(vfOOBPayload(20+i, 60+i))
					vrt.Sleep(3 * time.Millisecond)
				}
				vrt.Idle(300 * time.Millisecond)
				if n := len(clog2.list()); n > 0 {
					p.bad("C19:oob-delivered-to-another-session:new-conversation-on-the-same-address", "%d OOB message(s) addressed to the old conversation (conv %#x) were delivered to the handler of the new session (conv %#x) that reuses the address", n, vfConv, vfConv+9)
				}
				c2.Close()
			}
			p.teardown()
		}
		c.UnitBudget = 20 * time.Second
		c.Explore(scen, vfPairParams(cf, 0), 0, vfPairRun(cf, 0, body))
	}
}

func init() { hx.Register("C19", vfC19) }
