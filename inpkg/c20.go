//go:build verif

package kcp

import (
	"fmt"
	"slices"
	"time"

	"verif/hx"
)

// C20: the ring buffer is a FIFO queue for every operation sequence.
//
// Explicit-state BFS to fixpoint on the real RingBuffer[int]. The type is generic and cannot inspect
// its elements, so behaviour depends only on (capacity, head, tail); that triple is the state key and
// elements are relabelled canonically. A state is copied exactly (struct copy + slice clone) and every
// operation of the alphabet is applied to the copy and to a slice-backed model; every return value,
// the live contents in order, and the zero-ness of every slot outside the live range are compared.

type vfRingKey struct{ cap, head, n int }

type vfRingState struct {
	r     *RingBuffer[int]
	model []int
	depth int
	path  string
}

func vfRingClone(r *RingBuffer[int]) *RingBuffer[int] {
	c := *r
	c.elements = slices.Clone(r.elements)
	return &c
}

// vfRingCheck compares the ring with the model completely (observers, raw slots).
func vfRingCheck(r *RingBuffer[int], model []int) string {
	if r.Len() != len(model) {
		return fmt.Sprintf("Len()=%d, model has %d", r.Len(), len(model))
	}
	if r.IsEmpty() != (len(model) == 0) {
		return fmt.Sprintf("IsEmpty()=%v with %d elements", r.IsEmpty(), len(model))
	}
	if r.MaxLen() != len(r.elements)-1 {
		return fmt.Sprintf("MaxLen()=%d cap=%d", r.MaxLen(), len(r.elements))
	}
	if r.IsFull() != (len(model) == len(r.elements)-1) {
		return fmt.Sprintf("IsFull()=%v with %d of %d", r.IsFull(), len(model), len(r.elements)-1)
	}
	if r.head < 0 || r.head >= len(r.elements) || r.tail < 0 || r.tail >= len(r.elements) {
		return fmt.Sprintf("index out of range head=%d tail=%d cap=%d", r.head, r.tail, len(r.elements))
	}
	p, ok := r.Peek()
	if ok != (len(model) > 0) || (ok && *p != model[0]) {
		return "Peek disagrees with the model"
	}
	live := make([]bool, len(r.elements))
	for i, want := range model {
		idx := (r.head + i) % len(r.elements)
		live[idx] = true
		if r.elements[idx] != want {
			return fmt.Sprintf("element %d is %d, model has %d", i, r.elements[idx], want)
		}
	}
	for i, v := range r.elements {
		if !live[i] && v != 0 {
			return fmt.Sprintf("slot %d outside the live range retains element %d", i, v)
		}
	}
	return ""
}

type vfRingOp struct {
	name  string
	apply func(r *RingBuffer[int], model []int, next int) (newModel []int, err string)
}

func vfIter(r *RingBuffer[int], rev bool, fn func(*int) bool) {
	if rev {
		r.ForEachReverse(fn)
	} else {
		r.ForEach(fn)
	}
}

func vfRingOps(n int, maxLen int) []vfRingOp {
	var ops []vfRingOp
	if n < maxLen {
		ops = append(ops, vfRingOp{"Push", func(r *RingBuffer[int], m []int, next int) ([]int, string) {
			r.Push(next)
			return append(slices.Clone(m), next), ""
		}})
	}
	ops = append(ops, vfRingOp{"Pop", func(r *RingBuffer[int], m []int, _ int) ([]int, string) {
		v, ok := r.Pop()
		if len(m) == 0 {
			if ok || v != 0 {
				return m, "Pop on empty returned a value"
			}
			return m, ""
		}
		if !ok || v != m[0] {
			return m, fmt.Sprintf("Pop returned (%d,%v), model head is %d", v, ok, m[0])
		}
		return slices.Clone(m[1:]), ""
	}})
	ops = append(ops, vfRingOp{"Clear", func(r *RingBuffer[int], m []int, _ int) ([]int, string) {
		r.Clear()
		return nil, ""
	}})
	for d := 0; d <= n+1; d++ {
		d := d
		ops = append(ops, vfRingOp{fmt.Sprintf("Discard(%d)", d), func(r *RingBuffer[int], m []int, _ int) ([]int, string) {
			got := r.Discard(d)
			want := min(d, len(m))
			if got != want {
				return m, fmt.Sprintf("Discard(%d) returned %d, want %d", d, got, want)
			}
			return slices.Clone(m[want:]), ""
		}})
	}
	for _, rev := range []bool{false, true} {
		rev := rev
		nm := "ForEach"
		if rev {
			nm = "ForEachReverse"
		}
		// full iteration, early stop after k visits for every k, in-place mutation
		for stop := 1; stop <= n+1; stop++ {
			stop := stop
			label := fmt.Sprintf("%s(stop after %d)", nm, stop)
			if stop == n+1 {
				label = nm + "(all)"
			}
			ops = append(ops, vfRingOp{label, func(r *RingBuffer[int], m []int, _ int) ([]int, string) {
				var seen []int
				vfIter(r, rev, func(p *int) bool {
					seen = append(seen, *p)
					return len(seen) < stop
				})
				want := slices.Clone(m)
				if rev {
					slices.Reverse(want)
				}
				k := min(stop, len(want))
				if !slices.Equal(seen, want[:k]) {
					return m, fmt.Sprintf("%s visited %v, want %v", nm, seen, want[:k])
				}
				return m, ""
			}})
		}
		ops = append(ops, vfRingOp{nm + "(mutate)", func(r *RingBuffer[int], m []int, _ int) ([]int, string) {
			cnt := 0
			vfIter(r, rev, func(p *int) bool { *p += 1000000; cnt++; return true })
			if cnt != len(m) {
				return m, fmt.Sprintf("%s visited %d of %d", nm, cnt, len(m))
			}
			nm2 := slices.Clone(m)
			for i := range nm2 {
				nm2[i] += 1000000
			}
			return nm2, ""
		}})
	}
	return ops
}

func vfCanon(r *RingBuffer[int], m []int) {
	// relabel elements 1..n (sound: the ring cannot inspect them)
	for i := range m {
		m[i] = i + 1
		r.elements[(r.head+i)%len(r.elements)] = i + 1
	}
}

func vfC20(c *hx.Ctx) {
	c.Rule("explicit-state BFS over RingBuffer[int]; state = (capacity, head, length) with canonically relabelled elements; " +
		"a state is non-trivial when it is wrapped (head+len > cap) or was produced by a growth step; every transition applies one " +
		"operation of {Push, Pop, Clear, Discard(0..len+1), ForEach/ForEachReverse (stop after k for every k, mutate)} to an exact copy and to a slice model")
	c.Assume("the ring buffer is generic and cannot inspect element values, so relabelling elements is behaviour-preserving")
	maxLen := hx.Pick(c, 48, 144)
	sizes := []int{0, 1, 8, 9, 10, 12, 16, 48, 100}
	if !c.Skip("bfs") && c.Shard == 0 {
		start := time.Now()
		u := &hx.Unit{Name: "bfs", Kind: "bfs", Params: map[string]any{"max_len": maxLen, "initial_sizes": sizes}, Exhaustive: true}
		seen := map[vfRingKey]bool{}
		var queue []*vfRingState
		add := func(s *vfRingState) {
			k := vfRingKey{len(s.r.elements), s.r.head, len(s.model)}
			if seen[k] {
				return
			}
			seen[k] = true
			vfCanon(s.r, s.model)
			queue = append(queue, s)
			u.States++
			if s.depth > u.Depth {
				u.Depth = s.depth
			}
			if s.r.head+len(s.model) > len(s.r.elements) {
				u.NonTrivial++
			}
		}
		for _, sz := range sizes {
			add(&vfRingState{r: NewRingBuffer[int](sz), path: fmt.Sprintf("New(%d)", sz)})
		}
		viol := func(s *vfRingState, op, msg string) {
			if len(u.Violations) < 4 {
				sig := "C20:" + op[:min(len(op), max(0, indexByteOr(op, '(')))] + ":" + firstWords(msg, 3)
				u.Violations = append(u.Violations, c.NewViolation("bfs", u.Params, sig, msg,
					fmt.Sprintf("state cap=%d head=%d len=%d reached by %s; then %s", len(s.r.elements), s.r.head, len(s.model), s.path, op)))
			}
		}
		for len(queue) > 0 && len(u.Violations) == 0 {
			s := queue[0]
			queue = queue[1:]
			if msg := vfRingCheck(s.r, s.model); msg != "" {
				viol(s, "state", msg)
				break
			}
			for _, op := range vfRingOps(len(s.model), maxLen) {
				r2 := vfRingClone(s.r)
				m2, msg := func() (m []int, msg string) {
					defer func() {
						if p := recover(); p != nil {
							msg = fmt.Sprintf("panic: %v", p)
						}
					}()
					return op.apply(r2, s.model, 777)
				}()
				u.Transitions++
				if msg == "" {
					msg = vfRingCheck(r2, m2)
				}
				if msg != "" {
					viol(s, op.name, msg)
					break
				}
				if len(u.Samples) < 3 && s.depth == 9 {
					u.Samples = append(u.Samples, map[string]any{"path": s.path + " " + op.name, "cap": len(r2.elements), "head": r2.head, "len": len(m2)})
				}
				add(&vfRingState{r: r2, model: m2, depth: s.depth + 1, path: s.path + " " + op.name})
			}
		}
		u.Executions = u.Transitions
		u.EndStatesN = u.States
		u.WallS = time.Since(start).Seconds()
		if len(u.Violations) == 0 {
			u.Notes = append(u.Notes, "fixpoint reached: every successor of every state is a known state or exceeds max_len")
		} else {
			u.Exhaustive, u.CapHit = false, "stopped at violation"
		}
		c.AddUnit(u)
	}
	// large regime: growth by doubling below 1024 and by +10% from 1024 on, from every head position
	caps := []int{1023, 1024, 1025, 1127}
	if !c.Skip("large") {
		start := time.Now()
		u := &hx.Unit{Name: "large", Kind: "bfs", Params: map[string]any{"capacities": caps, "lengths": "cap-2, cap-1 (full)", "heads": "every head in [0,cap)"}, Exhaustive: true}
		idx := 0
		for _, cp := range caps {
			for head := 0; head < cp; head++ {
				idx++
				if c.Of > 1 && idx%c.Of != c.Shard {
					continue
				}
				if c.Quick() && head%4 != 0 && head > 16 && head < cp-16 {
					continue // quick tier: every 4th head away from the edges
				}
				for _, n := range []int{cp - 2, cp - 1} {
					base := NewRingBuffer[int](cp)
					if len(base.elements) != cp {
						u.Violations = append(u.Violations, c.NewViolation("large", u.Params, "C20:New:capacity", fmt.Sprintf("NewRingBuffer(%d) has capacity %d", cp, len(base.elements)), ""))
						break
					}
					// rotate: reach head by push/pop pairs, then fill (real operations only)
					for i := 0; i < head; i++ {
						base.Push(1)
						base.Pop()
					}
					model := make([]int, 0, n)
					for i := 0; i < n; i++ {
						base.Push(i + 1)
						model = append(model, i+1)
					}
					u.States++
					if head+n > cp {
						u.NonTrivial++
					}
					if msg := vfRingCheck(base, model); msg != "" {
						u.Violations = append(u.Violations, c.NewViolation("large", u.Params, "C20:state:"+firstWords(msg, 3), msg, fmt.Sprintf("cap=%d head=%d len=%d", cp, head, n)))
						continue
					}
					ops := []vfRingOp{}
					for _, op := range vfRingOps(n, n+2) {
						switch {
						case op.name == "Push", op.name == "Pop", op.name == "Clear",
							op.name == "ForEach(all)", op.name == "ForEachReverse(all)",
							op.name == "ForEach(stop after 1)", op.name == "ForEachReverse(stop after 1)",
							op.name == fmt.Sprintf("ForEach(stop after %d)", n), op.name == fmt.Sprintf("ForEachReverse(stop after %d)", n),
							op.name == "Discard(0)", op.name == "Discard(1)",
							op.name == fmt.Sprintf("Discard(%d)", cp-head-1), op.name == fmt.Sprintf("Discard(%d)", cp-head), op.name == fmt.Sprintf("Discard(%d)", cp-head+1),
							op.name == fmt.Sprintf("Discard(%d)", n-1), op.name == fmt.Sprintf("Discard(%d)", n), op.name == fmt.Sprintf("Discard(%d)", n+1):
							ops = append(ops, op)
						}
					}
					for _, op := range ops {
						r2 := vfRingClone(base)
						m2, msg := func() (m []int, msg string) {
							defer func() {
								if p := recover(); p != nil {
									msg = fmt.Sprintf("panic: %v", p)
								}
							}()
							return op.apply(r2, model, n+1)
						}()
						u.Transitions++
						if msg == "" {
							msg = vfRingCheck(r2, m2)
						}
						if msg == "" && op.name == "Push" && n == cp-1 {
							// growth step: order preserved (checked above), new capacity as documented
							want := cp * 2
							if cp >= RINGBUFFER_EXP {
								want = cp + (cp+9)/10
							}
							if len(r2.elements) != want {
								msg = fmt.Sprintf("growth from %d gave capacity %d, want %d", cp, len(r2.elements), want)
							}
							// one more round trip on the grown ring
							r2.Push(n + 2)
							m2 = append(m2, n+2)
							if v, ok := r2.Pop(); !ok || v != m2[0] {
								msg = "Pop after growth returned a wrong element"
							}
							m2 = m2[1:]
							if msg == "" {
								msg = vfRingCheck(r2, m2)
							}
						}
						if msg != "" && len(u.Violations) < 4 {
							u.Violations = append(u.Violations, c.NewViolation("large", u.Params, "C20:"+op.name[:indexByteOr(op.name, '(')]+":"+firstWords(msg, 3), msg,
								fmt.Sprintf("cap=%d head=%d len=%d op=%s", cp, head, n, op.name)))
						}
					}
					if len(u.Samples) < 2 {
						u.Samples = append(u.Samples, map[string]any{"cap": cp, "head": head, "len": n, "ops": len(ops)})
					}
				}
			}
		}
		u.Executions = u.Transitions
		u.EndStatesN = u.States
		u.WallS = time.Since(start).Seconds()
		c.AddUnit(u)
	}
}

func indexByteOr(s string, b byte) int {
	for i := 0; i < len(s); i++ {
		if s[i] == b {
			return i
		}
	}
	return len(s)
}

func firstWords(s string, n int) string {
	out := ""
	w := 0
	for i := 0; i < len(s); i++ {
		ch := s[i]
		if ch == ' ' {
			w++
			if w >= n {
				break
			}
		}
		if ch >= '0' && ch <= '9' {
			continue // numbers vary with the state; keep the signature stable
		}
		out += string(ch)
	}
	return out
}

func init() { hx.Register("C20", vfC20) }
