//go:build verif

package kcp

import (
	"container/heap"
	"encoding/binary"
	"fmt"
	"hash/maphash"
	"sort"
	"time"

	"verif/hx"
	"verif/vrt"
	"verif/wire"
)

// Adversarial explicit-state BFS on one real KCP core: from a handful of honest states, every sequence
// (up to a depth) of forged segments — cmd x sn x una x wnd x len x frg from boundary alphabets relative
// to the current state — interleaved with the endpoint's own actions (Send, Recv, flush, clock ticks).
// A state is an exact deep copy of the core (struct copy, cloned queues); the successor is computed by
// the real methods on the copy; states are deduplicated on a canonical key with sequence numbers and
// times made relative. Window invariants (C04) are evaluated in every state.

func vfCloneSeg(s segment) segment {
	if s.data != nil {
		s.data = append(make([]byte, 0, mtuLimit), s.data...)
	}
	return s
}

func vfCloneRing(r *RingBuffer[segment]) *RingBuffer[segment] {
	c := *r
	c.elements = make([]segment, len(r.elements))
	for i := range r.elements {
		c.elements[i] = vfCloneSeg(r.elements[i])
	}
	return &c
}

func vfCloneKCP(k *KCP, out output_callback) *KCP {
	c := *k
	c.snd_queue, c.rcv_queue, c.snd_buf = vfCloneRing(k.snd_queue), vfCloneRing(k.rcv_queue), vfCloneRing(k.snd_buf)
	h := &segmentHeap{marks: map[uint32]struct{}{}}
	for _, s := range k.rcv_buf.segments {
		h.segments = append(h.segments, vfCloneSeg(s))
	}
	for m := range k.rcv_buf.marks {
		h.marks[m] = struct{}{}
	}
	heap.Init(h)
	c.rcv_buf = h
	c.acklist = append([]ackItem(nil), k.acklist...)
	c.buffer = make([]byte, len(k.buffer))
	c.output = out
	return &c
}

var vfBfsSeed = maphash.MakeSeed()

// vfKCPKey is the canonical state key: sequence numbers relative to rcv_nxt / snd_una, times relative to now.
func vfKCPKey(k *KCP, now uint32) uint64 {
	var b []byte
	u := func(x uint32) { b = binary.LittleEndian.AppendUint32(b, x) }
	u(k.snd_nxt - k.snd_una)
	u(k.ssthresh)
	u(uint32(k.rx_rttvar))
	u(uint32(k.rx_srtt))
	u(k.rx_rto)
	u(k.rmt_wnd)
	u(k.cwnd)
	u(k.incr)
	u(k.probe)
	u(k.probe_wait)
	if k.probe_wait != 0 {
		u(k.ts_probe - now)
	}
	u(k.state)
	u(uint32(k.snd_queue.Len()))
	for s := range k.snd_queue.ForEach {
		u(uint32(len(s.data)))
		u(uint32(s.frg))
	}
	for s := range k.snd_buf.ForEach {
		u(s.sn - k.snd_una)
		u(s.xmit)
		u(s.acked)
		u(s.fastack)
		u(s.rto)
		u(s.resendts - now)
		u(uint32(len(s.data)))
	}
	u(0xfefefefe)
	for s := range k.rcv_queue.ForEach {
		u(k.rcv_nxt - s.sn)
		u(uint32(len(s.data)))
		u(uint32(s.frg))
	}
	var sns []uint32
	for _, s := range k.rcv_buf.segments {
		sns = append(sns, s.sn-k.rcv_nxt)
	}
	sort.Slice(sns, func(i, j int) bool { return sns[i] < sns[j] })
	u(0xfdfdfdfd)
	for _, x := range sns {
		u(x)
	}
	u(uint32(len(k.acklist)))
	for _, a := range k.acklist {
		u(a.sn - k.rcv_nxt)
	}
	return maphash.Bytes(vfBfsSeed, b)
}

type vfBfsState struct {
	k     *KCP
	now   uint32
	depth int
	path  string
}

type vfBfsAction struct {
	name string
	do   func(k *KCP, now *uint32)
}

func vfBfsActions(k *KCP, now uint32, full bool) []vfBfsAction {
	var acts []vfBfsAction
	mss := int(k.mss)
	forge := func(name string, s wire.Seg, n int) {
		s.Conv = k.conv
		s.Ts = now
		if n > 0 {
			s.Data = make([]byte, n)
		}
		pkt := wire.EncodeSegment(s, -1)
		acts = append(acts, vfBfsAction{name, func(k *KCP, _ *uint32) { k.Input(pkt, IKCP_PACKET_REGULAR, false) }})
	}
	rn, ru, sn := k.rcv_nxt, k.snd_una, k.snd_nxt
	rw := k.rcv_wnd
	pushSn := []uint32{rn - 1, rn, rn + 1, rn + rw - 1, rn + rw, rn + rw + 1, rn + 1<<31}
	lens := []int{1, mss}
	frgs := []uint8{0, 1}
	if full {
		lens = []int{0, 1, mss}
		frgs = []uint8{0, 1, 255}
	}
	for _, s := range pushSn {
		for _, l := range lens {
			for _, f := range frgs {
				forge(fmt.Sprintf("PUSH(sn=rcv_nxt%+d,len=%d,frg=%d)", int32(s-rn), l, f), wire.Seg{Cmd: wire.CmdPush, Sn: s, Una: ru, Wnd: 32, Frg: f}, l)
			}
		}
	}
	ackSn := []uint32{ru - 1, ru, ru + 1, sn - 1, sn, sn + 1<<31}
	unas := []uint32{ru - 1, ru, ru + 1, sn, sn + 1, sn + 1<<31}
	wnds := []uint16{0, 1, 65535}
	for _, a := range ackSn {
		for _, u := range unas {
			for _, w := range wnds {
				if !full && w == 1 {
					continue
				}
				forge(fmt.Sprintf("ACK(sn=snd_una%+d,una=snd_una%+d,wnd=%d)", int32(a-ru), int32(u-ru), w), wire.Seg{Cmd: wire.CmdAck, Sn: a, Una: u, Wnd: w}, 0)
			}
		}
	}
	for _, cmd := range []uint8{wire.CmdWask, wire.CmdWins} {
		for _, u := range []uint32{ru, sn, sn + 1} {
			for _, w := range wnds {
				forge(fmt.Sprintf("cmd%d(una=snd_una%+d,wnd=%d)", cmd, int32(u-ru), w), wire.Seg{Cmd: cmd, Una: u, Wnd: w}, 0)
			}
		}
	}
	acts = append(acts,
		vfBfsAction{"Send(1 segment)", func(k *KCP, _ *uint32) { k.Send(make([]byte, 1)) }},
		vfBfsAction{"Send(3 segments)", func(k *KCP, _ *uint32) { k.Send(make([]byte, 2*mss+1)) }},
		vfBfsAction{"Recv", func(k *KCP, _ *uint32) {
			if n := k.PeekSize(); n > 0 {
				k.Recv(make([]byte, n))
			}
		}},
		vfBfsAction{"flush", func(k *KCP, _ *uint32) { k.flush(IKCP_FLUSH_FULL) }},
		vfBfsAction{"tick(interval)+flush", func(k *KCP, now *uint32) { *now += k.interval; vfSetMs(*now); k.flush(IKCP_FLUSH_FULL) }},
		vfBfsAction{"tick(rto)+flush", func(k *KCP, now *uint32) { *now += k.rx_rto + 1; vfSetMs(*now); k.flush(IKCP_FLUSH_FULL) }},
		vfBfsAction{"tick(probe)+flush", func(k *KCP, now *uint32) { *now += 130000; vfSetMs(*now); k.flush(IKCP_FLUSH_FULL) }},
	)
	return acts
}

func vfSetMs(ms uint32) { vrt.SetSeqNow(int64(ms) * int64(time.Millisecond)) }

// vfAdversarialBFS runs the search; prefix is "C04:" or "C05:".
func vfAdversarialBFS(c *hx.Ctx, prefix string, depth int, full bool) {
	name := "adversarial-bfs"
	if c.Skip(name) {
		return
	}
	start := time.Now()
	u := &hx.Unit{Name: name, Kind: "bfs", Exhaustive: true, Params: map[string]any{"depth": depth, "full_alphabet": full, "windows": "snd_wnd=rcv_wnd in {1,2,3}, nc in {0,1}",
		"initial_states": "fresh; two segments in flight; delivery queue full with one segment parked; mid-transfer after an honest exchange"}}
	viol := func(sig, msg, path string) {
		for _, v := range u.Violations {
			if v.Signature == sig {
				v.Count++
				return
			}
		}
		if len(u.Violations) < 6 {
			u.Violations = append(u.Violations, c.NewViolation(name, u.Params, sig, msg, "path: "+path))
		}
	}
	refTime = vrt.Epoch0
	vrt.SetPoolMode(vrt.PoolPlain)
	cfgIdx := 0
	for _, w := range []int{1, 2, 3} {
		for _, nc := range []int{0, 1} {
			for init := 0; init < 4; init++ {
				cfgIdx++
				if c.Of > 1 && cfgIdx%c.Of != c.Shard {
					continue
				}
				// per-state emission capture
				var newSn []uint32
				var seen map[uint32]bool
				var emitBad string
				var emittedCmds [256]int
				var cur *KCP
				out := func(buf []byte, size int) {
					if size <= 0 || size > int(cur.mtu) {
						emitBad = fmt.Sprintf("output callback got size %d with mtu %d", size, cur.mtu)
						return
					}
					segs, err := wire.ParseSegments(buf[:size])
					if err != nil {
						emitBad = "emission rejected by the independent decoder: " + err.Error()
						return
					}
					for _, sg := range segs {
						emittedCmds[sg.Cmd]++
						if free := max(int(cur.rcv_wnd)-cur.rcv_queue.Len(), 0); int(sg.Wnd) != free {
							emitBad = fmt.Sprintf("advertises wnd=%d with %d of %d delivery-queue slots free", sg.Wnd, free, cur.rcv_wnd)
						}
						if sg.Cmd == wire.CmdPush && !seen[sg.Sn] {
							seen[sg.Sn] = true
							newSn = append(newSn, sg.Sn)
						}
					}
				}
				vfSetMs(1000)
				k0 := NewKCP(vfConv, nil)
				k0.WndSize(w, w)
				k0.NoDelay(1, 10, 2, nc)
				k0.SetMtu(24 + 16)
				k0.output = func([]byte, int) {}
				now0 := uint32(1000)
				switch init {
				case 1:
					k0.Send(make([]byte, 10))
					k0.Send(make([]byte, 10))
					k0.flush(IKCP_FLUSH_FULL)
				case 2:
					for s := uint32(0); s <= uint32(w); s++ {
						k0.Input(wire.EncodeSegment(wire.Seg{Conv: vfConv, Cmd: wire.CmdPush, Wnd: 32, Sn: s, Data: []byte{1}}, -1), IKCP_PACKET_REGULAR, false)
					}
				case 3:
					k0.Send(make([]byte, 40))
					k0.flush(IKCP_FLUSH_FULL)
					k0.Input(wire.EncodeSegment(wire.Seg{Conv: vfConv, Cmd: wire.CmdAck, Wnd: 32, Sn: 0, Una: 1, Ts: 1000}, -1), IKCP_PACKET_REGULAR, false)
					k0.Input(wire.EncodeSegment(wire.Seg{Conv: vfConv, Cmd: wire.CmdPush, Wnd: 32, Sn: 1, Una: 1, Data: []byte{7}}, -1), IKCP_PACKET_REGULAR, false)
				}
				visited := map[uint64]bool{vfKCPKey(k0, now0): true}
				queue := []*vfBfsState{{k: k0, now: now0, path: fmt.Sprintf("[w=%d nc=%d init=%d]", w, nc, init)}}
				u.States++
				for len(queue) > 0 {
					st := queue[0]
					queue[0] = nil
					queue = queue[1:]
					if st.depth >= depth {
						continue
					}
					if time.Now().After(c.Deadline) {
						u.Exhaustive, u.CapHit = false, "internal deadline"
						break
					}
					for _, a := range vfBfsActions(st.k, st.now, full) {
						seen = map[uint32]bool{}
						admittedUnsent := map[uint32]bool{}
						for s := range st.k.snd_buf.ForEach {
							if s.xmit > 0 {
								seen[s.sn] = true
							} else {
								admittedUnsent[s.sn] = true // moved into the send buffer by an earlier ACK-only flush, not yet transmitted
							}
						}
						newSn, emitBad = newSn[:0], ""
						emittedCmds = [256]int{}
						k2 := vfCloneKCP(st.k, out)
						cur = k2
						now2 := st.now
						vfSetMs(now2)
						preUna, preRmt, preCwnd := k2.snd_una, k2.rmt_wnd, k2.cwnd
						preProbe, preProbeWait, preTsProbe := k2.probe, k2.probe_wait, k2.ts_probe
						isInput := a.name[0] == 'P' || a.name[0] == 'A' || a.name[0] == 'c'
						panicked := ""
						func() {
							defer func() {
								if r := recover(); r != nil {
									panicked = fmt.Sprint(r)
								}
							}()
							a.do(k2, &now2)
						}()
						u.Transitions++
						path := st.path + " " + a.name
						if panicked != "" {
							viol(prefix+"adversarial:panic:"+vfPanicSiteOf(), "the core panicked: "+panicked, path)
							continue
						}
						// invariants
						switch {
						case emitBad != "":
							viol(prefix+"adversarial:emission", emitBad, path)
						case k2.rcv_queue.Len() > int(k2.rcv_wnd):
							viol(prefix+"adversarial:delivery-queue-exceeds-window", fmt.Sprintf("delivery queue holds %d segments, receive window %d", k2.rcv_queue.Len(), k2.rcv_wnd), path)
						case k2.rcv_buf.Len() > int(k2.rcv_wnd):
							viol(prefix+"adversarial:reorder-buffer-exceeds-window", fmt.Sprintf("reorder buffer holds %d segments, receive window %d", k2.rcv_buf.Len(), k2.rcv_wnd), path)
						case int32(k2.snd_nxt-k2.snd_una) < 0 || k2.snd_nxt-k2.snd_una > k2.snd_wnd:
							viol(prefix+"adversarial:outstanding-exceeds-send-window", fmt.Sprintf("snd_nxt-snd_una=%d, send window %d", int32(k2.snd_nxt-k2.snd_una), k2.snd_wnd), path)
						case k2.snd_buf.Len() != int(k2.snd_nxt-k2.snd_una):
							viol(prefix+"adversarial:send-buffer-accounting", fmt.Sprintf("snd_buf has %d entries, snd_nxt-snd_una=%d", k2.snd_buf.Len(), k2.snd_nxt-k2.snd_una), path)
						case k2.rx_rto < k2.rx_minrto || k2.rx_rto > IKCP_RTO_MAX:
							viol("C18:adversarial:rto-out-of-bounds", fmt.Sprintf("rto=%d outside [%d,%d]", k2.rx_rto, k2.rx_minrto, IKCP_RTO_MAX), path)
						}
						for _, sg := range k2.rcv_buf.segments {
							if d := int32(sg.sn - k2.rcv_nxt); d < 0 || d >= int32(k2.rcv_wnd) {
								viol(prefix+"adversarial:reorder-buffer-outside-window", fmt.Sprintf("buffers sn=rcv_nxt%+d with window %d", d, k2.rcv_wnd), path)
							}
						}
						if prefix == "C03:" {
							// zero-window probing: a full flush must answer a pending window probe with WINS, and must probe (WASK)
							// when the peer's window is zero and the probe timer has expired — whatever else is pending
							fullFlush := !isInput && (a.name == "flush" || len(a.name) > 4 && a.name[:4] == "tick")
							if fullFlush && preProbe&IKCP_ASK_TELL != 0 && emittedCmds[IKCP_CMD_WINS] == 0 {
								viol("C03:adversarial:window-probe-not-answered", "a window probe (WASK) was pending but the flush did not announce the window (no WINS)", path)
							}
							if fullFlush && preRmt == 0 && preProbeWait != 0 && int32(now2-preTsProbe) >= 0 && emittedCmds[IKCP_CMD_WASK] == 0 {
								viol("C03:adversarial:zero-window-not-probed", "the peer's window is zero and the probe timer has expired but the flush did not send a window probe (no WASK)", path)
							}
						} else if prefix == "C10:" {
							// only the emission-size clause is judged under C10
						} else if len(newSn) > 0 && prefix == "C04:" { // send-side window clause: C04 only (C05 is about crashes and buffering limits)
							una, rmt := preUna, preRmt
							lim := min(k2.snd_wnd, rmt)
							if isInput {
								una, rmt = k2.snd_una, k2.rmt_wnd
								lim = min(k2.snd_wnd, rmt)
							} else if k2.nocwnd == 0 {
								lim = min(lim, max(preCwnd, 1))
							}
							for _, s := range newSn {
								if o := s - una; int32(o) < 0 || o >= lim {
									sig := prefix + "adversarial:new-segment-beyond-effective-window"
									if admittedUnsent[s] {
										sig += ":admitted-by-an-earlier-ack-only-flush-while-the-window-was-open"
									}
									viol(sig, fmt.Sprintf("never-sent sn=snd_una+%d on the wire, limit %d (snd_wnd=%d rmt_wnd=%d)", int32(o), lim, k2.snd_wnd, rmt), path)
								}
							}
						}
						key := vfKCPKey(k2, now2)
						if !visited[key] {
							visited[key] = true
							u.States++
							if st.depth+1 > u.Depth {
								u.Depth = st.depth + 1
							}
							if k2.rcv_buf.Len() > 0 || k2.snd_buf.Len() > 0 {
								u.NonTrivial++
							}
							if len(u.Samples) < 3 && st.depth+1 == depth && u.States%1500 == 7 {
								u.Samples = append(u.Samples, map[string]any{"path": path})
							}
							if st.depth+1 < depth { // states at the depth bound were checked above and are never expanded: not kept
								queue = append(queue, &vfBfsState{k: k2, now: now2, depth: st.depth + 1, path: path})
							}
						}
					}
				}
			}
		}
	}
	if len(u.Samples) == 0 {
		u.Samples = append(u.Samples, map[string]any{"path": "[w=1 nc=0 init=2] PUSH(sn=rcv_nxt+1,len=1,frg=0) Recv flush"})
	}
	u.Executions = u.Transitions
	u.EndStatesN = u.States
	if len(u.Violations) > 0 {
		u.Exhaustive = false
	}
	u.Notes = append(u.Notes, fmt.Sprintf("BFS to depth %d from 24 initial states (this shard: a subset); every state within the depth bound was expanded with the whole alphabet", depth))
	u.WallS = time.Since(start).Seconds()
	c.AddUnit(u)
}

// vfRtoBFS: the retransmission timeout a core reports stays within [minimum RTO, 60 s] whatever acknowledgement timing or
// (forged) timestamps it observes — explicit-state BFS over acknowledgements with a timestamp alphabet, clock ticks and sends.
func vfRtoBFS(c *hx.Ctx, depth int) {
	name := "rto-bfs"
	if c.Skip(name) || (c.Of > 1 && c.Shard > 1) {
		return
	}
	start := time.Now()
	u := &hx.Unit{Name: name, Kind: "bfs", Exhaustive: true, Params: map[string]any{"depth": depth, "ack_timestamps": "now, now-1, -29, -1000, -20001, -30000, -59999, -60000, -60001, -2^31+1, now+1, 0, 0xffffffff",
		"other_actions": "tick(interval), tick(rto), tick(61s), Send+flush, NoDelay(0,..), NoDelay(1,..)", "modes": "nodelay 0 and 1, switched during the run"}}
	refTime = vrt.Epoch0
	vrt.SetPoolMode(vrt.PoolPlain)
	for nd := 0; nd < 2; nd++ {
		if c.Of > 1 && nd != c.Shard {
			continue
		}
		vfSetMs(100000)
		k0 := NewKCP(vfConv, func([]byte, int) {})
		k0.NoDelay(nd, 10, 2, 1)
		k0.WndSize(8, 8)
		k0.SetMtu(40)
		for i := 0; i < 4; i++ {
			k0.Send(make([]byte, 8))
		}
		k0.flush(IKCP_FLUSH_FULL)
		// states from level 4 on are the bulk of the frontier: they are kept as (parent, action) and rebuilt from the
		// parent's copy when their turn comes
		type st struct {
			k      *KCP
			parent *st
			act    int
			now    uint32
			depth  int
			path   string
		}
		type act struct {
			name   string
			do     func(k *KCP, now *uint32)
			sample bool // the action makes the core take an RTT sample (an acknowledgement whose timestamp is not in the future)
		}
		mkActs := func(now uint32) []act {
			var acts []act
			for _, off := range []int64{0, -1, -29, -1000, -20001, -30000, -59999, -60000, -60001, -(1 << 31) + 1, 1, -int64(now), int64(0xffffffff) - int64(now)} {
				ts := uint32(int64(now) + off)
				off := off
				acts = append(acts, act{fmt.Sprintf("ACK(oldest, ts=now%+d)", off), func(k *KCP, _ *uint32) {
					k.Input(wire.EncodeSegment(wire.Seg{Conv: k.conv, Cmd: wire.CmdAck, Wnd: 32, Sn: k.snd_una, Una: k.snd_una, Ts: ts}, -1), IKCP_PACKET_REGULAR, false)
				}, _itimediff(now, ts) >= 0})
			}
			// the mode may be changed during the connection's life: the minimum follows the mode
			acts = append(acts,
				act{name: "NoDelay(0,10,2,1)", do: func(k *KCP, _ *uint32) { k.NoDelay(0, 10, 2, 1) }},
				act{name: "NoDelay(1,10,2,1)", do: func(k *KCP, _ *uint32) { k.NoDelay(1, 10, 2, 1) }})
			acts = append(acts,
				act{name: "tick(interval)+flush", do: func(k *KCP, n *uint32) { *n += k.interval; vfSetMs(*n); k.flush(IKCP_FLUSH_FULL) }},
				act{name: "tick(rto)+flush", do: func(k *KCP, n *uint32) { *n += k.rx_rto + 1; vfSetMs(*n); k.flush(IKCP_FLUSH_FULL) }},
				act{name: "tick(61s)+flush", do: func(k *KCP, n *uint32) { *n += 61000; vfSetMs(*n); k.flush(IKCP_FLUSH_FULL) }},
				act{name: "Send+flush", do: func(k *KCP, n *uint32) { k.Send(make([]byte, 8)); k.flush(IKCP_FLUSH_FULL) }})
			return acts
		}
		// mat rebuilds a state that was kept as (parent, action); the copy stays with the state while its own children
		// (contiguous in the queue) still refer to it
		var mat func(s *st)
		mat = func(s *st) {
			if s.k != nil {
				return
			}
			mat(s.parent)
			s.k = vfCloneKCP(s.parent.k, func([]byte, int) {})
			n := s.parent.now
			vfSetMs(n)
			mkActs(n)[s.act].do(s.k, &n)
		}
		visited := map[uint64]bool{vfKCPKey(k0, 100000): true}
		queue := []*st{{k: k0, now: 100000, path: fmt.Sprintf("[nodelay=%d, 4 segments in flight]", nd)}}
		u.States++
		for len(queue) > 0 {
			s := queue[0]
			queue[0] = nil
			queue = queue[1:]
			if s.depth >= depth || time.Now().After(c.Deadline) {
				if s.depth < depth {
					u.Exhaustive, u.CapHit = false, "internal deadline"
				}
				continue
			}
			mat(s)
			acts := mkActs(s.now)
			for ai, a := range acts {
				k2 := vfCloneKCP(s.k, func([]byte, int) {})
				n2 := s.now
				vfSetMs(n2)
				a.do(k2, &n2)
				u.Transitions++
				path := s.path + " " + a.name
				// the value only changes when a sample is taken; right after a mode switch the old value may lie below the new
				// mode's minimum until the next sample (mode switches are not what the bound quantifies over)
				if (a.sample && k2.rx_rto < k2.rx_minrto) || k2.rx_rto > IKCP_RTO_MAX {
					dupe := false
					for _, v := range u.Violations {
						dupe = dupe || v.Signature == "C18:rto-out-of-bounds:forged-or-aged-ack-timestamps"
					}
					if !dupe {
						u.Violations = append(u.Violations, c.NewViolation(name, u.Params, "C18:rto-out-of-bounds:forged-or-aged-ack-timestamps",
							fmt.Sprintf("the core reports rto=%d, bounds are [%d, %d] (srtt=%d rttvar=%d)", k2.rx_rto, k2.rx_minrto, IKCP_RTO_MAX, k2.rx_srtt, k2.rx_rttvar), "path: "+path))
					}
					continue
				}
				modeMin := uint32(IKCP_RTO_MIN)
				if k2.nodelay != 0 {
					modeMin = IKCP_RTO_NDL
				}
				if a.sample && k2.rx_rto < modeMin {
					dupe := false
					for _, v := range u.Violations {
						dupe = dupe || v.Signature == "C18:rto-below-the-minimum-of-the-current-mode"
					}
					if !dupe {
						u.Violations = append(u.Violations, c.NewViolation(name, u.Params, "C18:rto-below-the-minimum-of-the-current-mode",
							fmt.Sprintf("right after an RTT sample the core reports rto=%d; the mode is nodelay=%d, whose minimum is %d ms (the core's own floor is %d)", k2.rx_rto, k2.nodelay, modeMin, k2.rx_minrto), "path: "+path))
					}
					continue
				}
				key := vfKCPKey(k2, n2) ^ uint64(k2.nodelay)<<62 ^ uint64(k2.rx_minrto)<<48
				if !visited[key] {
					visited[key] = true
					u.States++
					u.NonTrivial++
					if s.depth+1 > u.Depth {
						u.Depth = s.depth + 1
					}
					if len(u.Samples) < 3 && s.depth+1 == depth && u.States%400 == 3 {
						u.Samples = append(u.Samples, map[string]any{"path": path, "rto": k2.rx_rto})
					}
					switch {
					case s.depth+1 >= depth: // states at the depth bound are checked above but never expanded: not kept
					case s.depth+1 >= 4:
						queue = append(queue, &st{parent: s, act: ai, now: n2, depth: s.depth + 1, path: path})
					default:
						queue = append(queue, &st{k: k2, now: n2, depth: s.depth + 1, path: path})
					}
				}
			}
		}
	}
	if len(u.Samples) == 0 {
		u.Samples = append(u.Samples, map[string]any{"path": "[nodelay=0] ACK(oldest, ts=now-20001) tick(interval)+flush"})
	}
	u.Executions = u.Transitions
	u.EndStatesN = u.States
	if len(u.Violations) > 0 {
		u.Exhaustive = false
	}
	u.WallS = time.Since(start).Seconds()
	c.AddUnit(u)
}
