//go:build verif

package kcp

import (
	"fmt"
	"time"

	"verif/vrt"
	"verif/wire"
)

// vfWireTrack checks one direction of a session's datagrams against the documented frame layout using
// the independent decoder, and reassembles the byte stream from the wire alone (C09).
type vfWireTrack struct {
	cfg     wire.Config
	n       int
	lastSig string
	seen    map[string]bool
	nonces  map[string]bool
	haveSeq bool
	lastSeq uint32
	groups  map[uint32]*vfWireGroup
	segs    map[uint32][]byte // PUSH sn -> data
	frg     map[uint32]uint8
	oob     [][]byte
	parity  int
	data    int
	rsOK    int
	conv    uint32
	// FEC protection: a group whose last two data packets were emitted well within the continuity limit must be
	// followed by its parity (the encoder may omit parity only after an idle gap of more than 500 ms)
	haveData   bool
	lastDataAt int64  // virtual ns of the previous data packet
	owedParity bool   // the group just completed was continuous: its parity has to come next
	owedGroup  uint32 // that group
}

type vfWireGroup struct {
	data   map[int][]byte
	parity map[int][]byte
}

func (t *vfWireTrack) init(c wire.Config) {
	t.cfg = c
	t.seen, t.nonces = map[string]bool{}, map[string]bool{}
	t.groups = map[uint32]*vfWireGroup{}
	t.segs, t.frg = map[uint32][]byte{}, map[uint32]uint8{}
}

func (t *vfWireTrack) fail(sig, format string, args ...any) string {
	t.lastSig = sig
	return fmt.Sprintf(format, args...)
}

// observe checks one datagram; "" = conforming.
func (t *vfWireTrack) observe(dg []byte) string {
	t.n++
	f, err := wire.Decode(t.cfg, dg)
	if err != nil {
		return t.fail("frame-malformed", "the independent decoder rejects it: %v", err)
	}
	if t.cfg.Cipher != "" {
		if t.seen[string(dg)] {
			return t.fail("identical-datagrams", "byte-identical to an earlier datagram although a cipher is configured")
		}
		t.seen[string(dg)] = true
		if t.nonces[string(f.Nonce)] {
			return t.fail("nonce-reused", "nonce %x was used before", f.Nonce)
		}
		t.nonces[string(f.Nonce)] = true
	}
	if f.HasFEC {
		d, p := t.cfg.DataShards, t.cfg.ParityShards
		size := uint32(d + p)
		paws := uint32(0xffffffff) / size * size
		if f.Type == wire.TypeOOB {
			t.oob = append(t.oob, append([]byte(nil), f.OOB...))
			return ""
		}
		if f.Seqid >= paws {
			return t.fail("fec-seqid-range", "FEC seqid %d is not below the wrap value %d", f.Seqid, paws)
		}
		pos := f.Seqid % size
		if (pos < uint32(d)) != (f.Type == wire.TypeData) {
			return t.fail("fec-type-position", "FEC seqid %d (position %d of %d/%d) carries type %#x", f.Seqid, pos, d, p, f.Type)
		}
		if t.haveSeq {
			adv := uint32((uint64(f.Seqid) + uint64(paws) - uint64(t.lastSeq)) % uint64(paws))
			if adv == 0 || adv > uint32(p)+1 {
				return t.fail("fec-seqid-order", "FEC seqid %d follows %d (ids must increase, skipping at most one parity block)", f.Seqid, t.lastSeq)
			}
		}
		t.haveSeq, t.lastSeq = true, f.Seqid
		if t.owedParity {
			if f.Type == wire.TypeData || f.Seqid/size != t.owedGroup {
				t.owedParity = false
				return t.fail("fec-parity-omitted-for-a-continuous-group", "group %d was completed by data packets less than 400 ms apart, but no parity followed (next FEC packet: seqid %d type %#x): the stream lost its FEC protection for that group", t.owedGroup, f.Seqid, f.Type)
			}
			t.owedParity = false
		}
		if f.Type == wire.TypeData {
			now := vrt.NowNS()
			if pos == uint32(d)-1 && t.haveData && now-t.lastDataAt < int64(400*time.Millisecond) {
				t.owedParity, t.owedGroup = true, f.Seqid/size
			}
			t.haveData, t.lastDataAt = true, now
		}
		g := t.groups[f.Seqid/size]
		if g == nil {
			g = &vfWireGroup{data: map[int][]byte{}, parity: map[int][]byte{}}
			t.groups[f.Seqid/size] = g
		}
		if f.Type == wire.TypeData {
			t.data++
			g.data[int(pos)] = f.RSInput
		} else {
			t.parity++
			g.parity[int(pos)-d] = f.Parity
		}
		if len(g.data) == d && len(g.parity) == p {
			var ds, ps [][]byte
			for i := 0; i < d; i++ {
				ds = append(ds, g.data[i])
			}
			for i := 0; i < p; i++ {
				ps = append(ps, g.parity[i])
			}
			if err := wire.VerifyGroup(d, p, ds, ps); err != nil {
				return t.fail("fec-parity-not-reed-solomon", "group %d: %v", f.Seqid/size, err)
			}
			t.rsOK++
			delete(t.groups, f.Seqid/size)
		}
		if f.Type == wire.TypeParity {
			return ""
		}
	}
	for _, s := range f.Segs {
		if t.conv == 0 {
			t.conv = s.Conv
		}
		if s.Conv != t.conv {
			return t.fail("conv-changed", "segment carries conv %#x, session uses %#x", s.Conv, t.conv)
		}
		if s.Cmd == wire.CmdPush {
			if old, ok := t.segs[s.Sn]; ok && string(old) != string(s.Data) {
				return t.fail("retransmission-differs", "sn %d retransmitted with different content", s.Sn)
			}
			t.segs[s.Sn] = append([]byte(nil), s.Data...)
			t.frg[s.Sn] = s.Frg
		}
	}
	return ""
}

// stream reassembles the byte stream from the wire alone, starting at sn 0.
func (t *vfWireTrack) stream() []byte {
	var out []byte
	for sn := uint32(0); ; sn++ {
		d, ok := t.segs[sn]
		if !ok {
			return out
		}
		out = append(out, d...)
	}
}
