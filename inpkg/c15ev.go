//go:build verif

package kcp

import (
	"encoding/binary"
	"fmt"
	"time"

	"verif/explore"
	"verif/hx"
	"verif/vrt"
	"verif/wire"
)

// C15, what happens BEFORE the application closes: a transmission or reception fault on either socket, an
// out-of-band handler that closes its own session from inside the callback, two goroutines closing at once —
// followed by the ordinary shutdown (sessions, listener, and the transport unless the library owns it). With
// ownConn (what DialWithOptions / ListenWithOptions set up) the library must close the transport itself.
// Oracle as everywhere in C15: no timer armed, every library goroutine gone, pool sanitizer silent; plus: an owned
// transport has been closed, exactly one of two simultaneous first Close calls reports success.

var vfC15Events = []string{"none", "client-write-fault", "listener-write-fault", "client-read-fault", "listener-read-fault",
	"server-oob-handler-closes-its-session", "client-oob-handler-closes-its-session", "two-goroutines-close-at-once", "server-oob-handler-closes-the-listener",
	"forged-fec-type-in-a-steady-stream", "close-mid-burst-on-a-slow-path", "write-fault-then-close-mid-burst", "peer-restarts-with-a-new-conversation"}

func vfC15EventRun(own bool, ciph string, K int, batch bool, only ...string) explore.RunFunc {
	events := vfC15Events
	if len(only) > 0 {
		events = only
	}
	return func(e *explore.Exec) explore.Verdict {
		var fail, sig string
		var mu vrt.Mutex
		bad := func(s, format string, args ...any) {
			mu.Lock()
			if fail == "" {
				sig, fail = s, fmt.Sprintf(format, args...)+fmt.Sprintf(" [virtual time %s]", time.Duration(vrt.NowNS()))
			}
			mu.Unlock()
		}
		ev, desc := "", ""
		out := hx.RunVrt(e, vrt.Config{PreemptCost: 1, SwitchCost: 1, SelectCost: 1, TimerEarlyCost: -1, Horizon: 30 * time.Second, MaxSteps: 3000000}, func() {
			vfResetGlobals()
			vfBatchMode = batch
			vrt.SetPoolMode(vrt.PoolQuarantine)
			n := vfNewNet()
			laddr, caddr := vfUDP(1, 9000), vfUDP(2, 40000)
			lsock, csock := n.socket(laddr), n.socket(caddr)
			ev = events[vrt.Choose(len(events), "event before the shutdown")]
			at := []time.Duration{3 * time.Millisecond, 12 * time.Millisecond}[vrt.Choose(2, "event instant")]
			desc = fmt.Sprintf("event=%s at %s, library owns the transport=%v", ev, at, own)
			seen := 0
			n.fate = func(from, to *vfSock, data []byte, idx int) []time.Duration {
				if seen < K {
					seen++
					if vrt.Choose(2, "fate") == 1 {
						return nil
					}
				}
				return []time.Duration{n.Delay}
			}
			var lis *Listener
			var client, server *UDPSession
			vrt.Daemons(func() {
				SystemTimedSched = NewTimedSched(1)
				bl, _ := vfBlockCrypt(ciph)
				lis, _ = serveConn(bl, 2, 1, lsock, own)
				bc, _ := vfBlockCrypt(ciph)
				client, _ = NewConn4(vfConv, laddr, bc, 2, 1, own, csock)
				client.SetNoDelay(1, 10, 2, 1)
			})
			var wg vrt.WaitGroup
			wg.Add(2)
			vrt.Go("app-client", func() {
				defer wg.Done()
				sizes := []int{700, 1300, 30, 900}
				if ev == "forged-fec-type-in-a-steady-stream" {
					sizes = []int{700, 1300, 30, 900, 50, 60, 1300, 70, 80, 90, 1300, 20, 30, 40}
				}
				for i, sz := range sizes {
					client.SetWriteDeadline(vrt.Now().Add(time.Second))
					if _, err := client.Write(vfPayload(1, sz, i)); err != nil {
						return
					}
					vrt.Sleep(4 * time.Millisecond)
				}
			})
			vrt.Go("app-server", func() {
				defer wg.Done()
				lis.SetReadDeadline(vrt.Now().Add(time.Second))
				s, err := lis.AcceptKCP()
				if err != nil {
					return
				}
				s.SetNoDelay(1, 10, 2, 1)
				switch ev {
				case "server-oob-handler-closes-its-session":
					s.SetOOBHandler(func([]byte) { s.Close() })
				case "server-oob-handler-closes-the-listener":
					s.SetOOBHandler(func([]byte) { lis.Close() })
				}
				mu.Lock()
				server = s
				mu.Unlock()
				buf := make([]byte, 4096)
				for {
					s.SetReadDeadline(vrt.Now().Add(time.Second))
					if _, err := s.Read(buf); err != nil {
						return
					}
				}
			})
			if ev == "client-oob-handler-closes-its-session" {
				client.SetOOBHandler(func([]byte) { client.Close() })
			}
			vrt.Sleep(at)
			mu.Lock()
			srv := server
			mu.Unlock()
			firstOK := 0
			retired := false
			switch ev {
			case "client-write-fault":
				csock.failWrites(errVfInjected)
			case "listener-write-fault":
				lsock.failWrites(errVfInjected)
			case "client-read-fault":
				csock.failReads(errVfInjected)
			case "listener-read-fault":
				lsock.failReads(errVfInjected)
			case "server-oob-handler-closes-its-session", "server-oob-handler-closes-the-listener":
				client.SendOOB([]byte("please close"))
				vrt.Sleep(time.Millisecond)
				client.SendOOB([]byte("please close"))
			case "client-oob-handler-closes-its-session":
				if srv != nil {
					srv.SendOOB([]byte("please close"))
					vrt.Sleep(time.Millisecond)
					srv.SendOOB([]byte("please close"))
				}
			case "forged-fec-type-in-a-steady-stream":
				// well-formed (sealed) FEC packets whose type contradicts their position in the data/parity cycle, near the ids in
				// use, while the receivers hold incomplete groups: the decoders re-evaluate their ratio (and find it unchanged)
				// ONE well-formed (sealed) FEC packet whose type contradicts its position in the data/parity cycle, near the ids in
				// use, while the receiver holds incomplete groups: the decoder re-evaluates its ratio on the following packets and
				// finds it unchanged
				vrt.Sleep([]time.Duration{14 * time.Millisecond, 30 * time.Millisecond}[vrt.Choose(2, "forged packet instant")])
				sealer := vfNewSealer(ciph)
				id := []uint32{2, 7, 13, 21}[vrt.Choose(4, "forged packet id")]
				ty := uint16(typeParity)
				if id%3 == 2 {
					ty = typeData
				}
				b := make([]byte, fecHeaderSizePlus2+30)
				binary.LittleEndian.PutUint32(b, id)
				binary.LittleEndian.PutUint16(b[4:], ty)
				binary.LittleEndian.PutUint16(b[6:], 32)
				lsock.inject(caddr, sealer.seal(b))
				vrt.Sleep(60 * time.Millisecond)
			case "peer-restarts-with-a-new-conversation":
				// the peer's address opens another conversation (a restarted peer, a reused port): the listener retires the session
				// it had for that address. The application is told nothing but a failing Read, so the retired session is the
				// library's to close: the shutdown below does not close it again.
				pl := wire.EncodeSegment(wire.Seg{Conv: vfConv + 1, Cmd: wire.CmdPush, Wnd: 32, Sn: 0, Data: []byte("hello again")}, -1)
				b := make([]byte, fecHeaderSizePlus2+len(pl))
				binary.LittleEndian.PutUint32(b, 0)
				binary.LittleEndian.PutUint16(b[4:], typeData)
				binary.LittleEndian.PutUint16(b[6:], uint16(len(pl)+2))
				copy(b[fecHeaderSizePlus2:], pl)
				lsock.inject(caddr, vfNewSealer(ciph).seal(b))
				vrt.Sleep(5 * time.Millisecond)
				if srv != nil {
					retired = true
					var x struct{}
					if vrt.Select(true, srv.die.RecvCase(&x, nil)) != 0 {
						bad("C15:retired-session-not-closed", "the listener replaced the session of %s by a new conversation and left the old session open (%s)", caddr, desc)
					}
				}
			case "close-mid-burst-on-a-slow-path", "write-fault-then-close-mid-burst":
				// datagrams take time on the way out, a large write fills the transmit pipeline, and the session is closed while
				// the pipeline is still full (with an owned transport Close itself makes the remaining transmissions fail)
				csock.slowTo = map[string]time.Duration{laddr.String(): time.Millisecond}
				client.SetWindowSize(128, 128)
				client.SetWriteDeadline(vrt.Now().Add(time.Second))
				client.Write(make([]byte, 40000))
				vrt.Sleep(2 * time.Millisecond)
				client.Write(make([]byte, 40000)) // queued behind the first batch, which is still on its slow way out
				if ev == "write-fault-then-close-mid-burst" {
					vrt.Sleep(time.Millisecond)
					csock.failWrites(errVfInjected)
					vrt.Sleep(2 * time.Millisecond)
				}
				client.Close()
			case "two-goroutines-close-at-once":
				var cw vrt.WaitGroup
				for i := 0; i < 2; i++ {
					cw.Add(1)
					vrt.Go(fmt.Sprintf("closer-%d", i), func() {
						defer cw.Done()
						if client.Close() == nil {
							mu.Lock()
							firstOK++
							mu.Unlock()
						}
					})
				}
				cw.Wait()
				if firstOK != 1 {
					bad("C15:simultaneous-close", "of two simultaneous first Close calls %d reported success", firstOK)
				}
			}
			vrt.Sleep(20 * time.Millisecond)
			// the ordinary shutdown
			client.Close()
			mu.Lock()
			srv = server
			mu.Unlock()
			if srv != nil && !retired {
				srv.Close()
			}
			lis.Close()
			if !own {
				csock.Close()
				lsock.Close()
			}
			wg.Wait()
			vrt.Idle(2 * time.Second)
			if own {
				csock.mu.Lock()
				cc := csock.closed
				csock.mu.Unlock()
				lsock.mu.Lock()
				lc := lsock.closed
				lsock.mu.Unlock()
				if !cc {
					bad("C15:owned-transport-not-closed:client", "the session owns its transport, Close() was called, the transport is still open (%s)", desc)
				}
				if !lc {
					bad("C15:owned-transport-not-closed:listener", "the listener owns its transport, Close() was called, the transport is still open (%s)", desc)
				}
				csock.Close()
				lsock.Close()
				vrt.Idle(time.Second)
			}
			// sessions nobody accepted (known finding of the backlog unit): close them here so that they do not mask anything else
			for lis.chAccepts.Len() > 0 {
				var s *UDPSession
				if vrt.Select(true, lis.chAccepts.RecvCase(&s, nil)) != 0 || s == nil {
					break
				}
				s.Close()
			}
			vrt.Idle(2 * time.Second)
			if n := vrt.ArmedTimers(); n > 0 {
				bad("C15:scheduled-callback-left-after-close:"+ev, "%d timer(s) still armed after everything was closed (%s)", n, desc)
			}
			SystemTimedSched.Close()
			vrt.Idle(2 * time.Second)
			var left []string
			for _, th := range vrt.Threads() {
				if th.Daemon && th.State != "done" {
					left = append(left, th.Name+"("+th.Blocked+")")
				}
			}
			if len(left) > 0 {
				bad("C15:goroutine-left-after-close:"+ev, "library goroutines still alive after everything was closed: %v (%s)", left, desc)
			}
			if msg := vrt.PoolVerify(); msg != "" {
				bad("C15:"+firstWords(msg, 5), "%s", msg)
			}
		})
		v := explore.Verdict{Outcome: out.Status.String() + " " + ev, NonTriv: true, Pruned: out.Status == vrt.Pruned}
		v.StateHash = explore.HashString(fmt.Sprint(e.Choices()))
		switch {
		case out.Status == vrt.Panicked:
			v.Violation, v.Signature = out.Fail+"\n"+out.Stack, "C15:panic:"+vfPanicSite(out.Stack)
		case out.Status == vrt.Failed:
			v.Violation, v.Signature = out.Fail, "C15:"+firstWords(out.Fail, 5)
		case fail != "":
			v.Violation, v.Signature = fail, sig
		case out.Status != vrt.Done:
			v.Violation, v.Signature = fmt.Sprintf("execution ended %s (%s): threads blocked: %v", out.Status, desc, vfBlocked(out)), "C15:not-completed:"+ev
		}
		if v.Violation != "" {
			v.Detail = desc
		}
		return v
	}
}

func vfC15EventUnits(c *hx.Ctx) {
	for _, own := range []bool{false, true} {
		for _, ciph := range []string{"", "aes-128"} {
			if ciph != "" && c.Quick() && own {
				continue
			}
			c.UnitBudget = 15 * time.Second
			c.Explore(fmt.Sprintf("events-before-close/own-transport=%v/cipher=%s", own, ciph), map[string]any{"events": vfC15Events, "instants_ms": []int{3, 12}, "fec": []int{2, 1}, "K": 2, "library_owns_transport": own},
				hx.Pick(c, 0, 1), vfC15EventRun(own, ciph, 2, false))
		}
	}
	// closing while the transmit pipeline is full: with every single scheduling deviation (which select case the pipeline
	// goroutine takes when both "more to send" and "session closed" are ready is one of them)
	for _, own := range []bool{false, true} {
		c.UnitBudget = 20 * time.Second
		c.Explore(fmt.Sprintf("close-mid-burst/own-transport=%v", own), map[string]any{"events": []string{"close-mid-burst-on-a-slow-path", "write-fault-then-close-mid-burst"}, "library_owns_transport": own, "K": 0},
			hx.Pick(c, 1, 2), vfC15EventRun(own, "", 0, false, "close-mid-burst-on-a-slow-path", "write-fault-then-close-mid-burst"))
	}
	c.UnitBudget = 15 * time.Second
	c.Explore("events-before-close/own-transport=true/batch-io", map[string]any{"events": vfC15Events, "batch_io": true, "K": 1}, 0, vfC15EventRun(true, "", 1, true))
}
