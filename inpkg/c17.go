//go:build verif

package kcp

import (
	"fmt"
	"strings"
	"time"

	"verif/explore"
	"verif/hx"
	"verif/vrt"
)

// C17: every task handed to the timed scheduler runs exactly once, never early, promptly.
//
// The real TimedSched (prepend goroutine + N sched workers) runs on the virtual runtime; submitter
// threads call Put with deadlines from a small alphabet; the explorer enumerates every interleaving
// within the preemption bound (switches at blocking points and select ties are free), under both
// timer-channel semantics.

type vfPut struct {
	sleep time.Duration // virtual sleep before the Put
	off   time.Duration // deadline = now + off
	busy  time.Duration // the task's function takes this much (virtual) time: the worker is busy meanwhile
}

type vfTask struct {
	id       string
	putAt    time.Duration
	deadline time.Duration
	busy     time.Duration
	runs     []time.Duration
}

const vfFar = time.Hour

// vfNever: the largest deadline an application can express relative to now ("never"): about 292 years ahead, beyond
// the range of UnixNano. It must not run within the horizon and must not delay anything nearer.
const vfNever = time.Duration(1<<63-1) - 24*time.Hour

type vfC17Scenario struct {
	name string
	subs [][]vfPut
	// defaultOnly: every scheduling alternative costs one deviation (bound 0 = the default schedule alone)
	defaultOnly bool
}

func vfC17Scenarios(thorough bool) []vfC17Scenario {
	ms := time.Millisecond
	p := func(sleep, off time.Duration) vfPut { return vfPut{sleep, off, 0} }
	sc := []vfC17Scenario{
		{"1x2 increasing", [][]vfPut{{p(0, 5*ms), p(0, 10*ms)}}, false},
		{"1x2 decreasing", [][]vfPut{{p(0, 10*ms), p(0, 5*ms)}}, false},
		{"1x2 equal", [][]vfPut{{p(0, 5*ms), p(0, 5*ms)}}, false},
		{"1x2 past,now", [][]vfPut{{p(0, -10*ms), p(0, 0)}}, false},
		{"1x2 nearly equal (+1ns)", [][]vfPut{{p(0, 5*ms), p(0, 5*ms+1)}}, false},
		{"2x1 nearly equal (+500us)", [][]vfPut{{p(0, 5*ms)}, {p(0, 5*ms+500*time.Microsecond)}}, false},
		{"1x2 far,near", [][]vfPut{{p(0, vfFar), p(0, 5*ms)}}, false},
		{"1x2 near,far", [][]vfPut{{p(0, 5*ms), p(0, vfFar)}}, false},
		{"1x2 near,then at its expiry", [][]vfPut{{p(0, 5*ms), p(5*ms, 0)}}, false},
		{"2x1 near,nearer", [][]vfPut{{p(0, 10*ms)}, {p(0, 5*ms)}}, false},
		{"2x1 equal", [][]vfPut{{p(0, 5*ms)}, {p(0, 5*ms)}}, false},
		{"2x1 far,near", [][]vfPut{{p(0, vfFar)}, {p(0, 5*ms)}}, false},
		{"2x1 now,past", [][]vfPut{{p(0, 0)}, {p(0, -10*ms)}}, false},
		{"2x1 near / arrival at expiry", [][]vfPut{{p(0, 5*ms)}, {p(5*ms, 5*ms)}}, false},
		{"2x1 near / past at expiry", [][]vfPut{{p(0, 5*ms)}, {p(5*ms, -1*ms)}}, false},
		{"2x2 crossing", [][]vfPut{{p(0, 10*ms), p(0, 5*ms)}, {p(0, 5*ms), p(0, vfFar)}}, false},
		// a task function that takes time: deadlines pass and new tasks arrive while the worker is busy
		{"busy worker: timer fires and a task arrives meanwhile", [][]vfPut{{p(0, 5*ms), p(0, 10*ms)}, {{6 * ms, -1 * ms, 8 * ms}, {1 * ms, 30 * ms, 0}}}, false},
		{"busy worker: two deadlines pass meanwhile", [][]vfPut{{{0, 5 * ms, 12 * ms}, p(0, 8*ms), p(0, 10*ms), p(0, 40*ms)}}, false},
		// six pending tasks with zig-zag deadlines (the heap's shape matters from six on)
		{"1x6 zig-zag", [][]vfPut{{p(0, 3*ms), p(0, 15*ms), p(0, 5*ms), p(0, 7*ms), p(0, 17*ms), p(0, 19*ms)}}, false},
		{"1x2 never,near", [][]vfPut{{p(0, vfNever), p(0, 5*ms)}}, false},
		{"1x3 near,never,far", [][]vfPut{{p(0, 5*ms), p(0, vfNever), p(0, vfFar)}}, false},
		{"2x1 never,near", [][]vfPut{{p(0, vfNever)}, {p(0, 5*ms)}}, false},
	}
	if thorough {
		sc = append(sc,
			vfC17Scenario{"3x1 decreasing", [][]vfPut{{p(0, 10*ms)}, {p(0, 5*ms)}, {p(0, 0)}}, false},
			vfC17Scenario{"3x1 far,near,near", [][]vfPut{{p(0, vfFar)}, {p(0, 5*ms)}, {p(0, 5*ms)}}, false},
			vfC17Scenario{"3x1 arrivals at expiry", [][]vfPut{{p(0, 5*ms)}, {p(5*ms, 0)}, {p(5*ms, 5*ms)}}, false},
			vfC17Scenario{"2x2 near,later / at expiry", [][]vfPut{{p(0, 5*ms), p(5*ms, 5*ms)}, {p(5*ms, -1*ms), p(0, 1*ms)}}, false},
		)
	}
	return sc
}

// vfC17Due: the instant from which a task can run: its deadline, or the moment it was put, or — with a single worker —
// the end of a busy period (a task function that takes time) that covers that instant.
func vfC17Due(t *vfTask, all []*vfTask, workers int) time.Duration {
	due := max(t.deadline, t.putAt)
	if workers != 1 {
		return due
	}
	// a task that falls due while the worker is busy, or shortly afterwards, waits for the worker and then for a timer that
	// was computed from the time the busy task started (the scheduler reads the clock once per wake-up): allow twice the busy
	// time; tasks due after that window must be exact again
	for changed := true; changed; {
		changed = false
		for _, o := range all {
			if o != t && o.busy > 0 && len(o.runs) == 1 && o.runs[0] <= due && due < o.runs[0]+2*o.busy {
				due, changed = o.runs[0]+2*o.busy, true
			}
		}
	}
	return due
}

func vfC17Run(sc vfC17Scenario, parallel int, async bool, early int8) explore.RunFunc {
	return func(e *explore.Exec) explore.Verdict {
		var tasks []*vfTask
		var fail, sig string
		bad := func(s, format string, args ...any) {
			if fail == "" {
				sig, fail = s, fmt.Sprintf(format, args...)
			}
		}
		var leftover []string
		earlyFires := 0
		cfg := vrt.Config{PreemptCost: 1, SwitchCost: 0, SelectCost: 0, TimerEarlyCost: early, EarlyWindow: 50 * time.Millisecond,
			AsyncTimerChan: async, Horizon: 3 * time.Hour, MaxSteps: 20000}
		for _, sub := range sc.subs {
			cfg.MaxSteps += 40 * len(sub)
		}
		if sc.defaultOnly {
			cfg.SwitchCost, cfg.SelectCost = 1, 1
		}
		out := hx.RunVrt(e, cfg, func() {
			vfResetGlobals()
			var ts *TimedSched
			vrt.Daemons(func() { ts = NewTimedSched(parallel) })
			var wg vrt.WaitGroup
			for si, sub := range sc.subs {
				wg.Add(1)
				si, sub := si, sub
				vrt.Go(fmt.Sprintf("submitter%d", si), func() {
					defer wg.Done()
					for pi, p := range sub {
						if p.sleep > 0 {
							vrt.Sleep(p.sleep)
						}
						t := &vfTask{id: fmt.Sprintf("s%dp%d", si, pi), busy: p.busy}
						t.putAt = time.Duration(vrt.NowNS())
						t.deadline = t.putAt + p.off
						tasks = append(tasks, t)
						ts.Put(func() {
							t.runs = append(t.runs, time.Duration(vrt.NowNS()))
							if t.busy > 0 {
								vrt.Sleep(t.busy)
							}
						}, vrt.Epoch0.Add(t.deadline))
					}
				})
			}
			wg.Wait()
			vrt.Idle(200 * time.Millisecond)
			earlyFires = vrt.EarlyFires()
			for _, t := range tasks {
				near := t.deadline < time.Minute
				switch {
				case near && len(t.runs) == 0:
					bad("C17:near-task-not-run-at-quiescence", "task %s (deadline %s, put at %s) has not run although the system is quiescent at %s",
						t.id, vfMs(t.deadline), vfMs(t.putAt), vfMs(time.Duration(vrt.NowNS())))
				case len(t.runs) > 1:
					bad("C17:task-ran-more-than-once", "task %s ran %d times", t.id, len(t.runs))
				case len(t.runs) == 1 && t.runs[0] < t.deadline:
					bad("C17:task-ran-early", "task %s ran at %s, before its deadline %s", t.id, vfMs(t.runs[0]), vfMs(t.deadline))
				case near && earlyFires == 0 && t.runs[0]-vfC17Due(t, tasks, parallel) > time.Microsecond:
					bad("C17:task-ran-late", "task %s (deadline %s, put at %s) ran at %s although no thread was ever delayed and the worker was free from %s on", t.id, vfMs(t.deadline), vfMs(t.putAt), vfMs(t.runs[0]), vfMs(vfC17Due(t, tasks, parallel)))
				}
			}
			// let the far-future tasks come due
			vrt.Idle(2 * time.Hour)
			for _, t := range tasks {
				switch {
				case t.deadline > 1000*time.Hour:
					if len(t.runs) != 0 {
						bad("C17:task-ran-early", "task %s with a deadline centuries ahead ran at %s", t.id, t.runs[0])
					}
				case len(t.runs) != 1:
					bad("C17:task-run-count-at-end", "task %s ran %d times by the end", t.id, len(t.runs))
				case t.runs[0] < t.deadline:
					bad("C17:task-ran-early", "task %s ran at %s, before its deadline %s", t.id, t.runs[0], t.deadline)
				}
			}
			ts.Close()
			vrt.Idle(time.Second)
			for _, th := range vrt.Threads() {
				if th.Daemon && th.State != "done" {
					leftover = append(leftover, fmt.Sprintf("%s(%s %s)", th.Name, th.State, th.Blocked))
				}
			}
			if len(leftover) > 0 {
				bad("C17:scheduler-thread-left-after-Close", "scheduler goroutines still alive after Close: %v", leftover)
			}
		})
		v := explore.Verdict{}
		if out.Status == vrt.Pruned {
			v.Pruned = true
			return v
		}
		var sb strings.Builder
		for _, t := range tasks {
			if len(t.runs) == 1 {
				fmt.Fprintf(&sb, "%s@%s ", t.id, vfMs(t.runs[0]))
			} else {
				fmt.Fprintf(&sb, "%s#%d ", t.id, len(t.runs))
			}
		}
		v.Outcome = out.Status.String() + " " + sb.String()
		v.StateHash = explore.HashString(v.Outcome + fmt.Sprint(out.Steps))
		v.NonTriv = e.Cost() > 0 || len(e.Choices()) > 0
		switch {
		case out.Status == vrt.Panicked:
			v.Violation, v.Signature = out.Fail+"\n"+out.Stack, "C17:panic"
		case out.Status == vrt.Failed:
			v.Violation, v.Signature = out.Fail, "C17:fail:"+firstWords(out.Fail, 4)
		case out.Status != vrt.Done:
			v.Violation, v.Signature = fmt.Sprintf("execution ended %s: a harness thread is stuck (threads %v)", out.Status, out.Threads), "C17:"+out.Status.String()
		case fail != "":
			v.Violation, v.Signature = fail, sig
		}
		return v
	}
}

func vfC17(c *hx.Ctx) {
	c.Rule("every interleaving (preemptions <= bound; switches at blocking points, select ties free; early timer firing costs one deviation) of submitter threads calling " +
		"TimedSched.Put with deadlines from {past, now, equal, increasing, decreasing, +1h, arrival exactly at another task's expiry}, with 1 or 2 workers, " +
		"under both timer-channel semantics; each execution is a distinct choice sequence; non-trivial = at least one non-default scheduling choice")
	c.Assume("a timer firing at instant T is observed with the clock 1ns past T (a real clock read happens after expiry); threads take no virtual time unless a timer is fired early")
	bound := hx.Pick(c, 2, 3)
	scs := vfC17Scenarios(!c.Quick())
	type cfg struct {
		parallel int
		async    bool
		early    int8
	}
	cfgs := []cfg{{1, false, 1}, {2, false, 1}, {1, true, 1}, {2, true, -1}}
	c.ByUnit = true
	vfC17Perms(c)
	vfC17Bulk(c)
	total := (len(scs)*len(cfgs) + c.Of - 1) / max(c.Of, 1)
	left := time.Until(c.Deadline)
	for _, sc := range scs {
		for _, cf := range cfgs {
			if strings.HasPrefix(sc.name, "busy worker") && cf.parallel != 1 {
				continue // with several workers a busy one does not hold the others back: the due time would need the task-to-worker assignment
			}
			name := fmt.Sprintf("%s/workers=%d/asynctimerchan=%v/early=%d", sc.name, cf.parallel, cf.async, cf.early)
			c.UnitBudget = left / time.Duration(total)
			b := bound
			c.Explore(name, map[string]any{"scenario": sc.name, "workers": cf.parallel, "asynctimerchan": cf.async, "preemption_bound": b}, b,
				vfC17Run(sc, cf.parallel, cf.async, cf.early))
		}
	}
}

// vfC17Perms: one submitter hands a worker 6 (thorough: 7) pending tasks in EVERY order of their distinct deadlines (the
// shape of the worker's heap depends on the arrival order); the order is an environment choice, the schedule the default one.
func vfC17Perms(c *hx.Ctx) {
	n := hx.Pick(c, 6, 7)
	var perms [][]int
	var gen func(cur []int, used int)
	gen = func(cur []int, used int) {
		if len(cur) == n {
			perms = append(perms, append([]int{}, cur...))
			return
		}
		for i := 0; i < n; i++ {
			if used>>i&1 == 0 {
				gen(append(cur, i), used|1<<i)
			}
		}
	}
	gen(nil, 0)
	for _, async := range []bool{false, true} {
		async := async
		run := func(e *explore.Exec) explore.Verdict {
			var which int
			var sc vfC17Scenario
			// the permutation is the first choice of the execution; the scenario is then run like any other
			which = e.Choose(vrt.KEnv, len(perms), nil, "arrival order of the deadlines")
			var puts []vfPut
			for _, k := range perms[which] {
				puts = append(puts, vfPut{0, time.Duration(3+2*k) * time.Millisecond, 0})
			}
			sc = vfC17Scenario{fmt.Sprintf("order %v", perms[which]), [][]vfPut{puts}, false}
			v := vfC17Run(sc, 1, async, -1)(e)
			if v.Violation != "" {
				v.Violation = fmt.Sprintf("deadlines arriving in the order %v (x2 ms + 3 ms): %s", perms[which], v.Violation)
				v.Signature += ":arrival-order-of-six-or-more-pending-tasks"
			}
			return v
		}
		c.UnitBudget = 20 * time.Second
		saved := hx.NoCache
		hx.NoCache = true // the order is chosen before the execution starts: it is not part of the happens-before fingerprint
		c.Explore(fmt.Sprintf("every arrival order of %d pending tasks/workers=1/asynctimerchan=%v", n, async), map[string]any{"tasks": n, "orders": len(perms), "workers": 1, "asynctimerchan": async}, 0, run)
		hx.NoCache = saved
	}
}

// vfC17Bulk: MANY tasks pending at once (every count 2^k-1, 2^k, 2^k+1 up to 4097, where a batch limit or a chunked hand-over
// would sit), in four shapes: all falling due at the same instant; already due behind a busy worker; in two waves; with
// distinct increasing deadlines. The count and the shape are environment choices; the schedule is the default one (one
// submitter puts everything before stage 1 wakes up, which is the worst case for a hand-over in one piece).
func vfC17Bulk(c *hx.Ctx) {
	ms := time.Millisecond
	var counts []int
	for k := 4; k <= hx.Pick(c, 12, 13); k++ {
		counts = append(counts, 1<<k-1, 1<<k, 1<<k+1)
	}
	shapes := []string{"equal deadlines", "due behind a busy worker", "two waves", "increasing deadlines"}
	for _, async := range []bool{false, true} {
		async := async
		run := func(e *explore.Exec) explore.Verdict {
			which := e.Choose(vrt.KEnv, len(counts)*len(shapes), nil, "number of pending tasks and their shape")
			n, shape := counts[which/len(shapes)], which%len(shapes)
			var subs [][]vfPut
			switch shape {
			case 0:
				var puts []vfPut
				for i := 0; i < n; i++ {
					puts = append(puts, vfPut{0, 5 * ms, 0})
				}
				subs = [][]vfPut{puts}
			case 1:
				puts := []vfPut{{0, -1 * ms, 20 * ms}, {1 * ms, 0, 0}}
				for i := 1; i < n; i++ {
					puts = append(puts, vfPut{0, time.Duration(i%3-1) * ms, 0})
				}
				subs = [][]vfPut{puts}
			case 2:
				var puts []vfPut
				for i := 0; i < n; i++ {
					puts = append(puts, vfPut{0, 5 * ms, 0})
				}
				puts = append(puts, vfPut{2 * ms, 3 * ms, 0})
				for i := 1; i < n; i++ {
					puts = append(puts, vfPut{0, 3 * ms, 0})
				}
				subs = [][]vfPut{puts}
			case 3:
				var puts []vfPut
				for i := 0; i < n; i++ {
					puts = append(puts, vfPut{0, 5*ms + time.Duration(i)*time.Microsecond, 0})
				}
				subs = [][]vfPut{puts}
			}
			v := vfC17Run(vfC17Scenario{shapes[shape], subs, true}, 1, async, -1)(e)
			if v.Violation != "" {
				v.Violation = fmt.Sprintf("%d tasks, %s: %s", n, shapes[shape], v.Violation)
				v.Signature += ":many-pending-tasks"
			}
			v.Outcome = fmt.Sprintf("%d/%s: %x", n, shapes[shape], explore.HashString(v.Outcome))
			return v
		}
		c.UnitBudget = 60 * time.Second
		saved := hx.NoCache
		hx.NoCache = true
		c.Explore(fmt.Sprintf("many pending tasks (%d..%d)/workers=1/asynctimerchan=%v", counts[0], counts[len(counts)-1], async),
			map[string]any{"counts": counts, "shapes": shapes, "workers": 1, "asynctimerchan": async}, 0, run)
		hx.NoCache = saved
	}
}

func init() { hx.Register("C17", vfC17) }
