//go:build verif

package kcp

import (
	"errors"
	"fmt"
	"io"
	"net"
	"os"
	"strings"
	"time"

	"verif/explore"
	"verif/hx"
	"verif/vrt"
	"verif/wire"
)

// C13: blocked Read / Write / Accept always wake — data, deadline, close, error.
//
// Narrow seam: one dialled session (or one listener) on a virtual socket without a peer; the peer's
// packets are forged with the independent encoder and injected into the socket, so the real readLoop /
// monitor, packetInput, kcpInput, update and postProcess run. Caller threads block in Read/Write/Accept;
// an event thread performs a timed script (data, acknowledgements, deadline changes, Close, socket
// errors). Every interleaving within the preemption bound is explored; the expectation of each call
// (outcome class and virtual-time window) follows from the script alone.

type vfCall struct {
	op       string // Read | Write | Accept
	startAt  time.Duration
	dlBefore time.Duration // deadline set by the caller itself before the call (0 = none; negative = in the past)
	bufSize  int           // Read buffer size (0 = 64)
	// expectation
	want      string        // data | ok | timeout | closed | error | session
	alt       string        // acceptable alternative (ties)
	notBefore time.Duration // earliest legal return (virtual)
	notAfter  time.Duration // latest legal return
	wantN     int           // when > 0: the number of bytes a Read must return
	// result
	done bool
	got  string
	at   time.Duration
	err  error
	n    int
}

type vfEv struct {
	at time.Duration
	do string
	d  time.Duration // deadline argument (relative to now; 0 = zero time)
}

type vfC13Scn struct {
	name   string
	target string // session | listener | accepted-of-owning-listener
	calls  []vfCall
	events []vfEv
	sndWnd int
	fec    bool     // the session uses FEC 2/1
	pre    []string // actions before the callers start
}

var errVfInjected = errors.New("injected socket error")

const ms = time.Millisecond

func vfC13Scenarios() []vfC13Scn {
	slack := 2 * ms // a timeout fires at its instant; returning needs no virtual time
	R := func(start, dl time.Duration, want string, nb, na time.Duration) vfCall {
		return vfCall{op: "Read", startAt: start, dlBefore: dl, want: want, notBefore: nb, notAfter: na}
	}
	W := func(start, dl time.Duration, want string, nb, na time.Duration) vfCall {
		return vfCall{op: "Write", startAt: start, dlBefore: dl, want: want, notBefore: nb, notAfter: na}
	}
	A := func(start, dl time.Duration, want string, nb, na time.Duration) vfCall {
		return vfCall{op: "Accept", startAt: start, dlBefore: dl, want: want, notBefore: nb, notAfter: na}
	}
	far := 10 * time.Second
	return []vfC13Scn{
		// ---- Read
		{name: "Read/data-arrives", target: "session", calls: []vfCall{R(0, 0, "data", 20*ms, 20*ms+slack)}, events: []vfEv{{20 * ms, "data1", 0}}},
		// a datagram whose first segment is fine and whose rest does not parse (Input reports an error AFTER applying the first segment)
		{name: "Read/data-arrives-followed-by-a-foreign-segment-in-the-datagram", target: "session", calls: []vfCall{R(0, 0, "data", 20*ms, 20*ms+slack)}, events: []vfEv{{20 * ms, "data1+foreignconv", 0}}},
		{name: "Read/data-arrives-followed-by-an-unknown-command-in-the-datagram", target: "session", calls: []vfCall{R(0, 0, "data", 20*ms, 20*ms+slack)}, events: []vfEv{{20 * ms, "data1+badcmd", 0}}},
		{name: "Read/data-arrives-followed-by-a-truncated-segment-in-the-datagram", target: "session", calls: []vfCall{R(0, 0, "data", 20*ms, 20*ms+slack)}, events: []vfEv{{20 * ms, "data1+truncated", 0}}},
		{name: "Read/deadline-set-before", target: "session", calls: []vfCall{R(0, 50*ms, "timeout", 50*ms, 50*ms+slack)}},
		{name: "Read/deadline-in-the-past-before", target: "session", calls: []vfCall{R(5*ms, -10*ms, "timeout", 5*ms, 5*ms+slack)}},
		{name: "Read/deadline-set-while-blocked", target: "session", calls: []vfCall{R(0, 0, "timeout", 50*ms, 50*ms+slack)}, events: []vfEv{{10 * ms, "SetReadDeadline", 40 * ms}}},
		{name: "Read/deadline-set-while-blocked-via-SetDeadline", target: "session", calls: []vfCall{R(0, 0, "timeout", 50*ms, 50*ms+slack)}, events: []vfEv{{10 * ms, "SetDeadline", 40 * ms}}},
		{name: "Read/deadline-extended", target: "session", calls: []vfCall{R(0, 50*ms, "timeout", 100*ms, 100*ms+slack)}, events: []vfEv{{10 * ms, "SetReadDeadline", 90 * ms}}},
		{name: "Read/deadline-shortened", target: "session", calls: []vfCall{R(0, 100*ms, "timeout", 30*ms, 30*ms+slack)}, events: []vfEv{{10 * ms, "SetReadDeadline", 20 * ms}}},
		{name: "Read/deadline-cleared", target: "session", calls: []vfCall{R(0, 50*ms, "data", 200*ms, 200*ms+slack)}, events: []vfEv{{10 * ms, "SetReadDeadline", 0}, {200 * ms, "data1", 0}}},
		{name: "Read/deadline-set-zero-set", target: "session", calls: []vfCall{R(0, 50*ms, "timeout", 80*ms, 80*ms+slack)}, events: []vfEv{{10 * ms, "SetReadDeadline", 0}, {20 * ms, "SetReadDeadline", 60 * ms}}},
		{name: "Read/deadline-moved-to-the-past-while-blocked", target: "session", calls: []vfCall{R(0, 100*ms, "timeout", 10*ms, 10*ms+slack)}, events: []vfEv{{10 * ms, "SetReadDeadline", -5 * ms}}},
		{name: "Read/close-while-blocked", target: "session", calls: []vfCall{R(0, 0, "closed", 15*ms, 15*ms+slack)}, events: []vfEv{{15 * ms, "Close", 0}}},
		{name: "Read/close-while-blocked-with-deadline", target: "session", calls: []vfCall{R(0, 100*ms, "closed", 15*ms, 15*ms+slack)}, events: []vfEv{{15 * ms, "Close", 0}}},
		{name: "Read/socket-error-while-blocked", target: "session", calls: []vfCall{R(0, 0, "error", 15*ms, 15*ms+slack)}, events: []vfEv{{15 * ms, "readerr", 0}}},
		{name: "Read/data-exactly-at-deadline", target: "session", calls: []vfCall{{op: "Read", dlBefore: 30 * ms, want: "data", alt: "timeout", notBefore: 30 * ms, notAfter: 30*ms + slack}}, events: []vfEv{{30 * ms, "data1", 0}}},
		{name: "Read/two-readers-two-datagrams", target: "session", calls: []vfCall{R(0, 0, "data", 20*ms, 30*ms+slack), R(0, 0, "data", 20*ms, 30*ms+slack)}, events: []vfEv{{20 * ms, "data1", 0}, {30 * ms, "data1b", 0}}},
		{name: "Read/two-readers-one-datagram", target: "session", calls: []vfCall{R(0, 0, "data", 20*ms, 20*ms+slack), R(0, 0, "data", 20*ms, 20*ms+slack)}, events: []vfEv{{20 * ms, "data2", 0}}},
		{name: "Read/three-readers-one-datagram-then-close", target: "session", calls: []vfCall{R(0, 0, "data", 20*ms, 20*ms+slack), R(0, 0, "data", 20*ms, 20*ms+slack), {op: "Read", want: "closed", notBefore: 40 * ms, notAfter: 40*ms + slack}},
			events: []vfEv{{20 * ms, "data2", 0}, {40 * ms, "Close", 0}}},
		{name: "Read/three-readers-small-buffers-two-messages", target: "session", calls: []vfCall{{op: "Read", bufSize: 4, want: "data", notBefore: 20 * ms, notAfter: 20*ms + slack}, {op: "Read", bufSize: 4, want: "data", notBefore: 20 * ms, notAfter: 20*ms + slack},
			{op: "Read", bufSize: 4, want: "data", notBefore: 20 * ms, notAfter: 20*ms + slack}}, events: []vfEv{{20 * ms, "data2", 0}}},
		{name: "Read/fec-recovered-data-wakes-reader", target: "session", fec: true, calls: []vfCall{R(0, 0, "data", 10*ms, 10*ms+slack), R(15*ms, 0, "data", 30*ms, 30*ms+slack)},
			events: []vfEv{{10 * ms, "fec-data1", 0}, {30 * ms, "fec-parity-only", 0}}},
		{name: "Read/fec-recovered-data-two-readers", target: "session", fec: true, calls: []vfCall{R(0, 0, "data", 10*ms, 30*ms+slack), R(0, 0, "data", 10*ms, 30*ms+slack)},
			events: []vfEv{{10 * ms, "fec-data1", 0}, {30 * ms, "fec-parity-only", 0}}},
		{name: "Read/after-close-drains-then-fails", target: "session", pre: []string{"data1", "settle", "Close"}, calls: []vfCall{R(0, 0, "data", 0, far), R(5*ms, 0, "closed", 5*ms, 5*ms+slack)}},
		// "data already received" includes the tail of a message that was read in part before the Close, and the messages behind it
		{name: "Read/after-close-drains-the-tail-of-a-partly-read-message", target: "session", pre: []string{"data1", "settle", "read3", "Close"},
			calls: []vfCall{{op: "Read", want: "data", wantN: 2, notAfter: far}, R(5*ms, 0, "closed", 5*ms, 5*ms+slack)}},
		{name: "Read/after-close-drains-tail-and-next-message", target: "session", pre: []string{"data2", "settle", "read3", "Close"},
			calls: []vfCall{{op: "Read", want: "data", wantN: 2, notAfter: far}, {op: "Read", startAt: 5 * ms, want: "data", wantN: 6, notBefore: 5 * ms, notAfter: far}, R(10*ms, 0, "closed", 10*ms, 10*ms+slack)}},
		// ---- Write (send window 2, two segments already outstanding)
		{name: "Write/window-opens", target: "session", sndWnd: 2, pre: []string{"fill"}, calls: []vfCall{W(0, 0, "ok", 20*ms, 35*ms)}, events: []vfEv{{20 * ms, "ack1", 0}}},
		{name: "Write/window-opens-by-an-ack-followed-by-a-foreign-segment", target: "session", sndWnd: 2, pre: []string{"fill"}, calls: []vfCall{W(0, 0, "ok", 20*ms, 20*ms+slack)}, events: []vfEv{{20 * ms, "ack1+foreignconv", 0}}},
		{name: "Write/deadline-set-before", target: "session", sndWnd: 2, pre: []string{"fill"}, calls: []vfCall{W(0, 50*ms, "timeout", 50*ms, 50*ms+slack)}},
		{name: "Write/deadline-set-while-blocked", target: "session", sndWnd: 2, pre: []string{"fill"}, calls: []vfCall{W(0, 0, "timeout", 50*ms, 50*ms+slack)}, events: []vfEv{{10 * ms, "SetWriteDeadline", 40 * ms}}},
		{name: "Write/deadline-set-while-blocked-via-SetDeadline", target: "session", sndWnd: 2, pre: []string{"fill"}, calls: []vfCall{W(0, 0, "timeout", 50*ms, 50*ms+slack)}, events: []vfEv{{10 * ms, "SetDeadline", 40 * ms}}},
		{name: "Write/deadline-shortened-via-SetDeadline", target: "session", sndWnd: 2, pre: []string{"fill"}, calls: []vfCall{W(0, 100*ms, "timeout", 30*ms, 30*ms+slack)}, events: []vfEv{{10 * ms, "SetDeadline", 20 * ms}}},
		{name: "ReadWrite/both-blocked-SetDeadline", target: "session", sndWnd: 2, pre: []string{"fill"}, calls: []vfCall{W(0, 0, "timeout", 50*ms, 50*ms+slack), R(0, 0, "timeout", 50*ms, 50*ms+slack)}, events: []vfEv{{10 * ms, "SetDeadline", 40 * ms}}},
		{name: "Write/deadline-extended", target: "session", sndWnd: 2, pre: []string{"fill"}, calls: []vfCall{W(0, 50*ms, "timeout", 100*ms, 100*ms+slack)}, events: []vfEv{{10 * ms, "SetWriteDeadline", 90 * ms}}},
		{name: "Write/deadline-shortened", target: "session", sndWnd: 2, pre: []string{"fill"}, calls: []vfCall{W(0, 100*ms, "timeout", 30*ms, 30*ms+slack)}, events: []vfEv{{10 * ms, "SetWriteDeadline", 20 * ms}}},
		{name: "Write/deadline-set-zero-set", target: "session", sndWnd: 2, pre: []string{"fill"}, calls: []vfCall{W(0, 50*ms, "timeout", 80*ms, 80*ms+slack)}, events: []vfEv{{10 * ms, "SetWriteDeadline", 0}, {20 * ms, "SetWriteDeadline", 60 * ms}}},
		{name: "Write/close-while-blocked", target: "session", sndWnd: 2, pre: []string{"fill"}, calls: []vfCall{W(0, 0, "closed", 15*ms, 15*ms+slack)}, events: []vfEv{{15 * ms, "Close", 0}}},
		{name: "Write/socket-error-while-blocked", target: "session", sndWnd: 2, pre: []string{"fill"}, calls: []vfCall{W(0, 0, "error", 15*ms, 40*ms)}, events: []vfEv{{15 * ms, "writeerr", 0}}},
		// one transient error at the k-th datagram from now: the two outstanding segments fill a datagram each, so their
		// retransmission is one batch of two datagrams (k=1: head of a batch, k=2: inside a batch, k=3: head of the next batch)
		{name: "Write/one-socket-error-at-datagram-1-while-blocked", target: "session", sndWnd: 2, pre: []string{"fillbig"}, calls: []vfCall{W(0, 0, "error", 15*ms, 2*time.Second)}, events: []vfEv{{15 * ms, "writeerr-once-1", 0}}},
		{name: "Write/one-socket-error-at-datagram-2-while-blocked", target: "session", sndWnd: 2, pre: []string{"fillbig"}, calls: []vfCall{W(0, 0, "error", 15*ms, 2*time.Second)}, events: []vfEv{{15 * ms, "writeerr-once-2", 0}}},
		{name: "Write/one-socket-error-at-datagram-3-while-blocked", target: "session", sndWnd: 2, pre: []string{"fillbig"}, calls: []vfCall{W(0, 0, "error", 15*ms, 2*time.Second)}, events: []vfEv{{15 * ms, "writeerr-once-3", 0}}},
		{name: "Write/two-writers-window-opens-by-two", target: "session", sndWnd: 2, pre: []string{"fill"}, calls: []vfCall{W(0, 0, "ok", 20*ms, 35*ms), W(0, 0, "ok", 20*ms, 35*ms)}, events: []vfEv{{20 * ms, "ack2", 0}}},
		{name: "Write/window-enlarged-while-blocked", target: "session", sndWnd: 2, pre: []string{"fill"}, calls: []vfCall{W(0, 0, "ok", 20*ms, 35*ms)}, events: []vfEv{{20 * ms, "growwnd", 0}}},
		{name: "Write/two-writers-window-enlarged", target: "session", sndWnd: 2, pre: []string{"fill"}, calls: []vfCall{W(0, 0, "ok", 20*ms, 45*ms), W(0, 0, "ok", 20*ms, 45*ms)}, events: []vfEv{{20 * ms, "growwnd", 0}}},
		{name: "Write/after-close-fails", target: "session", pre: []string{"Close"}, calls: []vfCall{W(0, 0, "closed", 0, slack)}},
		// ---- sessions accepted from a listener that owns its transport: closing the listener closes the transport under them
		{name: "Read/accepted-session/owning-listener-closed-while-blocked", target: "accepted-of-owning-listener", calls: []vfCall{R(0, 0, "error", 15*ms, 15*ms+slack)}, events: []vfEv{{15 * ms, "CloseListener", 0}}},
		{name: "Read/accepted-session/owning-listener-closed-before", target: "accepted-of-owning-listener", pre: []string{"CloseListener", "settle"}, calls: []vfCall{R(0, 0, "error", 0, slack)}},
		{name: "Read/accepted-session/two-readers-owning-listener-closed", target: "accepted-of-owning-listener", calls: []vfCall{R(0, 0, "error", 15*ms, 15*ms+slack), R(0, 0, "error", 15*ms, 15*ms+slack)}, events: []vfEv{{15 * ms, "CloseListener", 0}}},
		// ---- Accept
		{name: "Accept/new-peer", target: "listener", calls: []vfCall{A(0, 0, "session", 20*ms, 20*ms+slack)}, events: []vfEv{{20 * ms, "hello", 0}}},
		{name: "Accept/deadline-set-before", target: "listener", calls: []vfCall{A(0, 50*ms, "timeout", 50*ms, 50*ms+slack)}},
		{name: "Accept/deadline-set-while-blocked", target: "listener", calls: []vfCall{A(0, 0, "timeout", 50*ms, 50*ms+slack)}, events: []vfEv{{10 * ms, "SetListenerDeadline", 40 * ms}}},
		{name: "Accept/deadline-extended-while-blocked", target: "listener", calls: []vfCall{A(0, 50*ms, "timeout", 100*ms, 100*ms+slack)}, events: []vfEv{{10 * ms, "SetListenerDeadline", 90 * ms}}},
		{name: "Accept/deadline-shortened-while-blocked", target: "listener", calls: []vfCall{A(0, 100*ms, "timeout", 30*ms, 30*ms+slack)}, events: []vfEv{{10 * ms, "SetListenerDeadline", 20 * ms}}},
		{name: "Accept/deadline-cleared-while-blocked", target: "listener", calls: []vfCall{A(0, 50*ms, "session", 200*ms, 200*ms+slack)}, events: []vfEv{{10 * ms, "SetListenerDeadline", 0}, {200 * ms, "hello", 0}}},
		{name: "Accept/deadline-moved-to-the-past-while-blocked", target: "listener", calls: []vfCall{A(0, 100*ms, "timeout", 10*ms, 10*ms+slack)}, events: []vfEv{{10 * ms, "SetListenerDeadline", -5 * ms}}},
		{name: "Accept/two-acceptors-deadline-set-while-blocked", target: "listener", calls: []vfCall{A(0, 0, "timeout", 50*ms, 50*ms+slack), A(0, 0, "timeout", 50*ms, 50*ms+slack)}, events: []vfEv{{10 * ms, "SetListenerDeadline", 40 * ms}}},
		{name: "Accept/close-while-blocked", target: "listener", calls: []vfCall{A(0, 0, "closed", 15*ms, 15*ms+slack)}, events: []vfEv{{15 * ms, "CloseListener", 0}}},
		{name: "Accept/socket-error-while-blocked", target: "listener", calls: []vfCall{A(0, 0, "error", 15*ms, 15*ms+slack)}, events: []vfEv{{15 * ms, "listenerreaderr", 0}}},
		{name: "Accept/two-acceptors-two-peers", target: "listener", calls: []vfCall{A(0, 0, "session", 20*ms, 25*ms+slack), A(0, 0, "session", 20*ms, 25*ms+slack)}, events: []vfEv{{20 * ms, "hello", 0}, {25 * ms, "hello2", 0}}},
	}
}

// vfC13Switch: cost of running another than the default thread at a blocking point / of a non-default ready select case
// (0 = free as in CHESS, 1 = delay bounding).
var vfC13Switch = func() int8 {
	if os.Getenv("VERIF_C13_SWITCH") == "0" {
		return 0
	}
	return 1
}()

func vfPush(sn uint32, data []byte) []byte {
	return wire.EncodeSegment(wire.Seg{Conv: vfConv, Cmd: wire.CmdPush, Wnd: 32, Sn: sn, Una: 0, Data: data}, -1)
}

func vfAck(sn, una uint32) []byte {
	return wire.EncodeSegment(wire.Seg{Conv: vfConv, Cmd: wire.CmdAck, Wnd: 32, Sn: sn, Una: una}, -1)
}

func vfClassify(err error) string {
	if err == nil {
		return "ok"
	}
	var ne net.Error
	if errors.As(err, &ne) && ne.Timeout() {
		return "timeout"
	}
	if errors.Is(err, io.ErrClosedPipe) {
		return "closed"
	}
	if errors.Is(err, errVfInjected) || strings.Contains(err.Error(), "injected") || errors.Is(err, errVfClosed) {
		return "error"
	}
	return "other:" + err.Error()
}

func vfC13Run(sc vfC13Scn, async bool) explore.RunFunc {
	return func(e *explore.Exec) explore.Verdict {
		calls := make([]vfCall, len(sc.calls))
		copy(calls, sc.calls)
		var fail, sig string
		var mu vrt.Mutex
		bad := func(s, format string, args ...any) {
			mu.Lock()
			if fail == "" {
				sig, fail = s, fmt.Sprintf(format, args...)
			}
			mu.Unlock()
		}
		out := hx.RunVrt(e, vrt.Config{PreemptCost: 1, SwitchCost: vfC13Switch, SelectCost: vfC13Switch, TimerEarlyCost: -1, AsyncTimerChan: async, Horizon: 30 * time.Second, MaxSteps: 200000}, func() {
			vfResetGlobals()
			n := vfNewNet()
			caddr, laddr := vfUDP(2, 40000), vfUDP(1, 9000)
			csock, lsock := n.socket(caddr), n.socket(laddr)
			var sess *UDPSession
			var lis *Listener
			vrt.Daemons(func() {
				SystemTimedSched = NewTimedSched(1)
				if sc.target == "session" && sc.fec {
					sess, _ = NewConn3(vfConv, laddr, nil, 2, 1, csock)
				} else if sc.target == "session" {
					sess, _ = NewConn3(vfConv, laddr, nil, 0, 0, csock)
				} else if sc.target == "accepted-of-owning-listener" {
					lis, _ = serveConn(nil, 0, 0, lsock, true) // the listener owns its transport, as Listen sets it up
				} else {
					lis, _ = ServeConn(nil, 0, 0, lsock)
				}
			})
			if sc.target == "accepted-of-owning-listener" {
				// one peer says hello and is accepted; the scripted calls are made on the accepted session
				lsock.inject(vfUDP(7, 1111), wire.EncodeSegment(wire.Seg{Conv: 77, Cmd: wire.CmdPush, Wnd: 32, Sn: 0, Data: []byte("hi")}, -1))
				lis.SetReadDeadline(vrt.Now().Add(time.Second))
				a, err := lis.AcceptKCP()
				if err != nil {
					bad("C13:setup", "accept failed: %v", err)
					return
				}
				lis.SetReadDeadline(time.Time{})
				buf := make([]byte, 16)
				a.Read(buf) // consume the greeting
				sess = a
			}
			if sess != nil {
				sess.SetNoDelay(1, 10, 2, 1)
				if sc.sndWnd > 0 {
					sess.SetWindowSize(sc.sndWnd, 32)
				}
			}
			now := func() time.Duration { return time.Duration(vrt.NowNS()) }
			abs := func(d time.Duration) time.Time {
				if d == 0 {
					return time.Time{}
				}
				return vrt.Epoch0.Add(now() + d)
			}
			// the peer's FEC group: two data packets and one parity packet from a real encoder
			var fecPkts [][]byte
			if sc.fec {
				enc := newFECEncoder(2, 1, 0)
				enc.tsLatestPacket = vrt.Now().UnixMilli()
				for i, m := range [][]byte{vfPush(0, []byte("first")), vfPush(1, []byte("second"))} {
					b := make([]byte, fecHeaderSizePlus2+len(m), 1500)
					copy(b[fecHeaderSizePlus2:], m)
					ps := enc.encode(b, maxFECEncodeLatency)
					fecPkts = append(fecPkts, append([]byte(nil), b...))
					if i == 1 {
						for _, x := range ps {
							fecPkts = append(fecPkts, append([]byte(nil), x...))
						}
					}
				}
			}
			act := func(what string, d time.Duration) {
				switch what {
				case "fec-data1":
					csock.inject(laddr, fecPkts[0])
				case "fec-parity-only": // the second data packet is lost; parity lets the receiver rebuild it
					csock.inject(laddr, fecPkts[2])
				case "data1":
					csock.inject(laddr, vfPush(0, []byte("first")))
				case "data1+foreignconv":
					csock.inject(laddr, append(vfPush(0, []byte("first")), make([]byte, 24)...))
				case "data1+badcmd":
					csock.inject(laddr, append(vfPush(0, []byte("first")), wire.EncodeSegment(wire.Seg{Conv: vfConv, Cmd: 99, Wnd: 32}, -1)...))
				case "data1+truncated": // a PUSH header that announces more payload than the datagram carries
					x := vfPush(1, []byte("second-message"))
					csock.inject(laddr, append(vfPush(0, []byte("first")), x[:len(x)-5]...))
				case "ack1+foreignconv":
					csock.inject(laddr, append(vfAck(0, 1), make([]byte, 24)...))
				case "data1b":
					csock.inject(laddr, vfPush(1, []byte("second")))
				case "data2": // two messages in one datagram
					csock.inject(laddr, append(vfPush(0, []byte("first")), vfPush(1, []byte("second"))...))
				case "settle":
					vrt.Sleep(5 * ms)
				case "read3": // the application reads the first three bytes of the first message
					if n, err := sess.Read(make([]byte, 3)); n != 3 || err != nil {
						bad("C13:setup", "Read of 3 bytes returned %d, %v", n, err)
					}
				case "fill":
					for i := 0; i < sc.sndWnd; i++ {
						if _, err := sess.Write([]byte("x")); err != nil {
							bad("C13:setup", "filling the window failed: %v", err)
						}
					}
				case "fillbig": // segments that fill a datagram each: a retransmission of both is a batch of two datagrams
					for i := 0; i < sc.sndWnd; i++ {
						if _, err := sess.Write(make([]byte, 1200)); err != nil {
							bad("C13:setup", "filling the window failed: %v", err)
						}
					}
				case "writeerr-once-1":
					csock.failWriteAt(1, errVfInjected)
				case "writeerr-once-2":
					csock.failWriteAt(2, errVfInjected)
				case "writeerr-once-3":
					csock.failWriteAt(3, errVfInjected)
				case "ack1":
					csock.inject(laddr, vfAck(0, 1))
				case "ack2":
					csock.inject(laddr, append(vfAck(0, 1), vfAck(1, 2)...))
				case "growwnd":
					sess.SetWindowSize(8, 32) // the peer stays silent: only the session's own periodic update can wake the writer
				case "SetReadDeadline":
					sess.SetReadDeadline(abs(d))
				case "SetWriteDeadline":
					sess.SetWriteDeadline(abs(d))
				case "SetDeadline":
					sess.SetDeadline(abs(d))
				case "SetListenerDeadline":
					lis.SetReadDeadline(abs(d))
				case "Close":
					if err := sess.Close(); err != nil {
						bad("C13:Close:first-close-errors", "first Close returned %v", err)
					}
					if err := sess.Close(); err == nil {
						bad("C13:Close:second-close-succeeds", "second Close returned nil")
					}
				case "CloseListener":
					if err := lis.Close(); err != nil {
						bad("C13:Close:first-close-errors", "first Listener.Close returned %v", err)
					}
					if err := lis.Close(); err == nil {
						bad("C13:Close:second-close-succeeds", "second Listener.Close returned nil")
					}
				case "readerr":
					csock.failReads(errVfInjected)
				case "writeerr":
					csock.failWrites(errVfInjected)
					// a write error is noticed when something is transmitted: the peer's probe makes the session answer
					csock.inject(laddr, wire.EncodeSegment(wire.Seg{Conv: vfConv, Cmd: wire.CmdWask, Wnd: 32}, -1))
				case "listenerreaderr":
					lsock.failReads(errVfInjected)
				case "hello":
					lsock.inject(vfUDP(7, 1111), wire.EncodeSegment(wire.Seg{Conv: 77, Cmd: wire.CmdPush, Wnd: 32, Sn: 0, Data: []byte("hi")}, -1))
				case "hello2":
					lsock.inject(vfUDP(8, 2222), wire.EncodeSegment(wire.Seg{Conv: 88, Cmd: wire.CmdPush, Wnd: 32, Sn: 0, Data: []byte("hi")}, -1))
				default:
					panic("unknown action " + what)
				}
			}
			for _, a := range sc.pre {
				act(a, 0)
			}
			t0 := now()
			var wg vrt.WaitGroup
			for i := range calls {
				c := &calls[i]
				wg.Add(1)
				vrt.Go(fmt.Sprintf("caller%d-%s", i, c.op), func() {
					defer wg.Done()
					if c.startAt > 0 {
						vrt.Sleep(c.startAt)
					}
					if c.dlBefore != 0 {
						switch c.op {
						case "Read":
							sess.SetReadDeadline(abs(c.dlBefore))
						case "Write":
							sess.SetWriteDeadline(abs(c.dlBefore))
						case "Accept":
							lis.SetReadDeadline(abs(c.dlBefore))
						}
					}
					var err error
					var n int
					switch c.op {
					case "Read":
						bs := 64
						if c.bufSize > 0 {
							bs = c.bufSize
						}
						buf := make([]byte, bs)
						n, err = sess.Read(buf)
						if err == nil && n > 0 {
							c.got = "data"
						}
					case "Write":
						n, err = sess.Write([]byte("blocked-write"))
					case "Accept":
						var s *UDPSession
						s, err = lis.AcceptKCP()
						if err == nil && s != nil {
							c.got = "session"
						}
					}
					if c.got == "" {
						c.got = vfClassify(err)
					}
					c.err, c.n, c.at, c.done = err, n, now()-t0, true
				})
			}
			vrt.Go("events", func() {
				last := time.Duration(0)
				for _, ev := range sc.events {
					if ev.at > last {
						vrt.Sleep(ev.at - last)
						last = ev.at
					}
					act(ev.do, ev.d)
				}
			})
			vrt.Idle(3 * time.Second)
			// expectations: which caller gets which outcome is up to the schedule, so results are matched to the
			// scripted expectations as a multiset (every assignment is tried; callers are few)
			check := func(c *vfCall, x *vfCall) (string, string) {
				switch {
				case !c.done:
					return "never-returned", ""
				case c.got != x.want && c.got != x.alt:
					return "wrong-result", fmt.Sprintf("returned %q (n=%d, err=%v) at %s, expected %q", c.got, c.n, c.err, c.at, x.want)
				case x.wantN > 0 && c.n != x.wantN:
					return "wrong-amount", fmt.Sprintf("returned %d bytes at %s, expected %d (data received before the Close has to be drained first)", c.n, c.at, x.wantN)
				case c.got == "timeout" && c.at < x.notBefore:
					return "timeout-before-deadline", fmt.Sprintf("timed out at %s, before its effective deadline %s", c.at, x.notBefore)
				case c.at > x.notAfter:
					return "late-return", fmt.Sprintf("returned %q at %s, expected by %s", c.got, c.at, x.notAfter)
				case c.at < x.notBefore && c.got != "timeout":
					return "returned-before-cause", fmt.Sprintf("returned %q at %s, before the event that allows it (%s)", c.got, c.at, x.notBefore)
				}
				return "", ""
			}
			perm := make([]int, len(calls))
			for i := range perm {
				perm[i] = i
			}
			bestClause, bestMsg, bestIdx, bestBad := "", "", 0, len(calls)+1
			var try func(k int)
			try = func(k int) {
				if k == len(perm) {
					nbad, clause, msg, idx := 0, "", "", 0
					for i := range calls {
						if calls[i].op != sc.calls[perm[i]].op || calls[i].startAt != sc.calls[perm[i]].startAt || calls[i].dlBefore != sc.calls[perm[i]].dlBefore || calls[i].bufSize != sc.calls[perm[i]].bufSize {
							nbad += 100 // only callers that made the same call are interchangeable
							continue
						}
						if cl, m := check(&calls[i], &sc.calls[perm[i]]); cl != "" {
							if nbad == 0 {
								clause, msg, idx = cl, m, i
							}
							nbad++
						}
					}
					if nbad < bestBad {
						bestBad, bestClause, bestMsg, bestIdx = nbad, clause, msg, idx
					}
					return
				}
				for j := k; j < len(perm); j++ {
					perm[k], perm[j] = perm[j], perm[k]
					try(k + 1)
					perm[k], perm[j] = perm[j], perm[k]
				}
			}
			try(0)
			if bestBad > 0 {
				c := &calls[bestIdx]
				if bestClause == "never-returned" {
					readable := ""
					if sess != nil {
						sess.mu.Lock()
						readable = fmt.Sprintf(" (PeekSize=%d, WaitSnd=%d of snd_wnd=%d)", sess.kcp.PeekSize(), sess.kcp.WaitSnd(), sess.kcp.snd_wnd)
						sess.mu.Unlock()
					}
					bad("C13:"+sc.name+":never-returned", "%s #%d is still blocked 3s (virtual) after the script ended%s", c.op, bestIdx, readable)
				} else {
					bad("C13:"+sc.name+":"+bestClause, "%s #%d %s", c.op, bestIdx, bestMsg)
				}
			}
			// let the callers go, tear down
			if sess != nil {
				sess.Close()
			}
			if lis != nil {
				lis.Close()
			}
			csock.Close()
			lsock.Close()
			SystemTimedSched.Close()
		})
		v := explore.Verdict{}
		if out.Status == vrt.Pruned {
			v.Pruned = true
			return v
		}
		var sb strings.Builder
		for i := range calls {
			fmt.Fprintf(&sb, "%s=%s@%s ", calls[i].op, calls[i].got, calls[i].at)
		}
		v.Outcome = out.Status.String() + " " + sb.String()
		v.StateHash = explore.HashString(v.Outcome + fmt.Sprint(out.Steps))
		v.NonTriv = e.Cost() > 0 || len(e.Choices()) > 0
		switch {
		case out.Status == vrt.Panicked:
			v.Violation, v.Signature = out.Fail+"\n"+out.Stack, "C13:panic:"+vfPanicSite(out.Stack)
		case out.Status == vrt.Failed:
			v.Violation, v.Signature = out.Fail, "C13:fail:"+firstWords(out.Fail, 4)
		case fail != "":
			v.Violation, v.Signature = fail, sig
		case out.Status != vrt.Done:
			v.Violation, v.Signature = fmt.Sprintf("execution ended %s", out.Status), "C13:"+sc.name+":"+out.Status.String()
		}
		return v
	}
}

func vfC13(c *hx.Ctx) {
	c.Rule("one session (or listener) on a virtual socket, peer packets forged and injected; 1-3 callers blocked in Read/Write/Accept and an event thread running a timed script " +
		"(data, acks, SetDeadline variants none->set / later / earlier / zero->set / past, Close, socket errors); every interleaving within the deviation bound (a deviation = a preemption, running another than the default thread at a blocking point, or a non-default ready select case: delay bounding; VERIF_C13_SWITCH=0 makes the latter two free as in CHESS), " +
		"both timer-channel semantics; each call must return with the scripted outcome inside its virtual-time window. Non-trivial = at least one non-default scheduling choice.")
	c.Assume("threads take no virtual time; a timer firing at instant T is observed 1ns after T")
	c.ByUnit = true
	c.AlwaysBound0 = vfC13Switch != 0 // (delay bounding: bound 0 is the one default schedule of a script)
	bound := hx.Pick(c, 2, 3)
	scs := vfC13Scenarios()
	n := 2 * len(scs)
	per := (n + max(c.Of, 1) - 1) / max(c.Of, 1)
	left := time.Until(c.Deadline)
	for _, sc := range scs {
		for _, async := range []bool{false, true} {
			c.UnitBudget = left / time.Duration(max(per, 1))
			c.Explore(fmt.Sprintf("%s/asynctimerchan=%v", sc.name, async), map[string]any{"scenario": sc.name, "callers": len(sc.calls), "events": len(sc.events), "asynctimerchan": async}, bound, vfC13Run(sc, async))
		}
	}
}

func init() { hx.Register("C13", vfC13) }
