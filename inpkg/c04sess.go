//go:build verif

package kcp

import (
	"fmt"
	"time"

	"verif/hx"
	"verif/vrt"
)

// C04, session clause: "a session's Write is admitted only while fewer than a send window of segments are
// pending and otherwise blocks".
//
// A dialled session in message mode (one Write = ceil(len/mss) segments, nothing coalesces) with send window w
// writes a sequence of messages whose sizes are chosen from {1, mss, mss+1, 3*mss}; phase 1 runs over a network
// that delivers nothing (pending segments can only grow), phase 2 after the network has healed and everything
// was acknowledged. Model: a Write is admitted iff pending < w at that moment; in phase 1 every other Write must
// block until its deadline. After every successful Write, pending <= (w-1) + segments of that Write.

func vfC04sess(c *hx.Ctx) {
	for _, w := range []int{1, 2, 4} {
		for _, ciph := range []string{"", "aes-128"} {
			w, ciph := w, ciph
			if c.Quick() && ciph != "" && w != 2 {
				continue
			}
			cf := vfPairCfg{Cipher: ciph, SDS: -1, Stream: false, NoDelay: [4]int{1, 10, 2, 1}, SndWnd: w, RcvWnd: 64, ReadBuf: 4096,
				Pool: vrt.PoolPlain, Preempt: 1, Switch: 1, Select: 1, Owners: []string{"C04:"}, HorizonS: 60}
			nw := hx.Pick(c, 4, 5)
			body := func(p *vfPair) {
				black := true
				inner := p.net.fate
				p.net.fate = func(from, to *vfSock, data []byte, idx int) []time.Duration {
					if black {
						return nil
					}
					return inner(from, to, data, idx)
				}
				p.client.mu.Lock()
				mss := int(p.client.kcp.mss)
				p.client.mu.Unlock()
				sizes := []int{1, mss, mss + 1, 3 * mss}
				pending := 0
				write := func(phase, i int) bool {
					sz := sizes[1+2*(i%2)]
					dl := 2 * time.Second // the accepted-but-unread peer acknowledges on its default 100 ms tick
					if phase == 1 {
						sz = sizes[vrt.Choose(len(sizes), "write size")]
						dl = 40 * time.Millisecond
					}
					segs := (sz + mss - 1) / mss
					p.client.SetWriteDeadline(vrt.Now().Add(dl))
					t0 := vrt.NowNS()
					_, err := p.client.Write(vfPayload(1, sz, 0))
					took := time.Duration(vrt.NowNS() - t0)
					p.client.mu.Lock()
					ws := p.client.kcp.WaitSnd()
					p.client.mu.Unlock()
					switch cls := vfClassify(err); {
					case cls == "ok":
						if ws > w-1+segs {
							p.bad("C04:write-admitted-beyond-the-send-window", "phase %d write #%d of %d bytes (%d segments) returned with %d segments pending; send window %d allows at most %d after an admission", phase, i, sz, segs, ws, w, w-1+segs)
							return false
						}
						if phase == 1 {
							if pending >= w {
								p.bad("C04:write-admitted-beyond-the-send-window", "phase 1 write #%d was admitted although %d segments were pending and nothing has been acknowledged (send window %d)", i, pending, w)
								return false
							}
							if took > time.Millisecond {
								p.bad("C04:write-delayed-below-the-send-window", "phase 1 write #%d took %s although only %d segments were pending (send window %d)", i, took, pending, w)
								return false
							}
							pending += segs
						}
					case cls == "timeout":
						if phase == 1 && pending < w {
							p.bad("C04:write-blocked-below-the-send-window", "phase 1 write #%d timed out although only %d segments were pending (send window %d)", i, pending, w)
							return false
						}
						if phase == 2 {
							p.bad("C04:write-blocked-on-a-healthy-path", "phase 2 write #%d timed out (%d segments pending, send window %d)", i, ws, w)
							return false
						}
					default:
						p.bad("C04:write-error", "write #%d failed: %v", i, err)
						return false
					}
					return true
				}
				for i := 0; i < nw; i++ {
					if !write(1, i) {
						return
					}
				}
				black = false
				vrt.Idle(3 * time.Second) // retransmissions get through, everything is acknowledged
				p.client.mu.Lock()
				ws := p.client.kcp.WaitSnd()
				p.client.mu.Unlock()
				if ws != 0 {
					p.bad("C02:backlog-not-drained", "%d segments still pending 3 s after the network healed", ws)
					return
				}
				for i := 0; i < 3; i++ {
					if !write(2, i) {
						return
					}
				}
				vrt.Idle(time.Second)
				p.teardown()
			}
			c.UnitBudget = 15 * time.Second
			pr := vfPairParams(cf, 0)
			pr["writes"] = fmt.Sprintf("%d writes over a dead network + 3 after it healed, sizes {1, mss, mss+1, 3*mss}", nw)
			c.Explore(fmt.Sprintf("session-write-admission/wnd=%d/cipher=%s", w, ciph), pr, 0, vfPairRun(cf, 0, body))
		}
	}
}
