//go:build verif

package kcp

import (
	"bytes"
	"fmt"
	"net"
	"strings"
	"time"

	"verif/explore"
	"verif/hx"
	"verif/vrt"
)

// C11, connect / close / reconnect histories: a client at address X talks conversation a, goes away, and a new
// client at the same address X starts conversation b while a third peer at Y keeps streaming. The server is
// written the way applications are: one handler per accepted session which reads until Read fails (idle
// deadline or "closed") and then closes the session — and, as deferred + explicit Close calls do, closes it once
// more a little later. Enumerated: the instant of the reconnect, the handler's idle deadline (so that the old
// session is closed by the application before, or by the listener at, the reconnect), the delay of the second
// Close, the fate of the first K datagrams after the reconnect, schedule deviations.
// Oracles: every (address, conversation) is handed out by Accept exactly once, each session delivers a prefix of
// what ITS peer wrote, and the streams of the new conversation and of the bystander arrive completely.

type vfC11ReCfg struct {
	Cipher string
	DS, PS int
	K      int
	Bound  int
}

func vfC11ReRun(cf vfC11ReCfg) explore.RunFunc {
	return func(e *explore.Exec) explore.Verdict {
		var fail, sig string
		var mu vrt.Mutex
		bad := func(s, format string, args ...any) {
			mu.Lock()
			if fail == "" {
				sig, fail = s, fmt.Sprintf(format, args...)+fmt.Sprintf(" [virtual time %s]", time.Duration(vrt.NowNS()))
			}
			mu.Unlock()
		}
		var fates []int
		desc := ""
		out := hx.RunVrt(e, vrt.Config{PreemptCost: 1, SwitchCost: 1, SelectCost: 1, TimerEarlyCost: -1, Horizon: 60 * time.Second, MaxSteps: 3000000}, func() {
			vfResetGlobals()
			vrt.SetPoolMode(vrt.PoolEager)
			n := vfNewNet()
			laddr := vfUDP(1, 9000)
			lsock := n.socket(laddr)
			base := -1
			seen := 0
			fa := []int{vfDeliver, vfDrop, vfReorder, vfDup}
			n.fate = func(from, to *vfSock, data []byte, idx int) []time.Duration {
				f := vfDeliver
				if base >= 0 && seen < cf.K {
					seen++
					f = fa[vrt.Choose(len(fa), "fate")]
					fates = append(fates, f)
				}
				switch f {
				case vfDrop:
					return nil
				case vfDup:
					return []time.Duration{n.Delay, n.Delay + 2*time.Millisecond}
				case vfReorder:
					return []time.Duration{n.Delay + 25*time.Millisecond}
				}
				return []time.Duration{n.Delay}
			}
			reAt := []time.Duration{40 * time.Millisecond, 90 * time.Millisecond}[vrt.Choose(2, "reconnect instant")]
			idle := []time.Duration{10 * time.Second, 60 * time.Millisecond}[vrt.Choose(2, "idle deadline of the first conversation's handler")]
			again := []time.Duration{-1, 0, 30 * time.Millisecond}[vrt.Choose(3, "second Close")]
			desc = fmt.Sprintf("reconnect@%s idle=%s second-close=%s", reAt, idle, again)

			addrX, addrY := vfUDP(10, 40000), vfUDP(11, 40001)
			type peer struct {
				name   string
				id     int
				addr   net.Addr
				conv   uint32
				writes []int
				gap    time.Duration
			}
			pA1 := &peer{"A1", 3, addrX, 1000, []int{700, 30}, 0}
			pB := &peer{"B", 4, addrY, 2000, []int{64, 64, 64, 1200, 64, 64}, 25 * time.Millisecond}
			pA2 := &peer{"A2", 5, addrX, 1500, []int{64, 1300, 64, 64}, 20 * time.Millisecond}
			byKey := map[string]*peer{}
			for _, p := range []*peer{pA1, pB, pA2} {
				byKey[fmt.Sprintf("%s/%d", p.addr, p.conv)] = p
			}
			var lis *Listener
			vrt.Daemons(func() {
				SystemTimedSched = NewTimedSched(1)
				bl, _ := vfBlockCrypt(cf.Cipher)
				lis, _ = ServeConn(bl, cf.DS, cf.PS, lsock)
			})
			dial := func(p *peer) (*UDPSession, *vfSock) {
				var s *UDPSession
				var sock *vfSock
				vrt.Daemons(func() {
					sock = n.socket(p.addr)
					bc, _ := vfBlockCrypt(cf.Cipher)
					s, _ = NewConn3(p.conv, laddr, bc, cf.DS, cf.PS, sock)
					s.SetNoDelay(1, 10, 2, 1)
				})
				return s, sock
			}
			write := func(p *peer, s *UDPSession) {
				off := 0
				for _, sz := range p.writes {
					if _, err := s.Write(vfPayload(p.id, sz, off)); err != nil {
						bad("C11:write-error", "peer %s: Write failed: %v", p.name, err)
						return
					}
					off += sz
					if p.gap > 0 {
						vrt.Sleep(p.gap)
					}
				}
			}
			accepted := map[string]int{}
			complete := map[string]bool{}
			var wg, handlers vrt.WaitGroup
			stop := false
			wg.Add(1)
			vrt.Go("acceptor", func() {
				defer wg.Done()
				for {
					mu.Lock()
					done := stop
					mu.Unlock()
					if done {
						return
					}
					lis.SetReadDeadline(vrt.Now().Add(100 * time.Millisecond))
					s, err := lis.AcceptKCP()
					if err != nil {
						if vfClassify(err) == "timeout" {
							continue
						}
						bad("C11:accept-error", "Accept failed: %v", err)
						return
					}
					key := fmt.Sprintf("%s/%d", s.RemoteAddr(), s.GetConv())
					p := byKey[key]
					mu.Lock()
					accepted[key]++
					cnt := accepted[key]
					mu.Unlock()
					if p == nil {
						bad("C11:unknown-session-accepted", "Accept handed out a session for %s, which no peer started", key)
						return
					}
					if cnt > 1 {
						bad("C11:peer-accepted-twice:reconnect", "conversation %s of peer %s was handed out by Accept %d times (%s)", key, p.name, cnt, desc)
						return
					}
					s.SetNoDelay(1, 10, 2, 1)
					handlers.Add(1)
					vrt.Go("handler-"+p.name, func() {
						defer handlers.Done()
						exp := vfExpected(p.id, p.writes)
						var got []byte
						buf := make([]byte, 4096)
						myIdle := 10 * time.Second
						if p == pA1 {
							myIdle = idle // only the first conversation's handler may give up early: that is the Close whose timing is varied
						}
						for {
							s.SetReadDeadline(vrt.Now().Add(myIdle))
							n, err := s.Read(buf)
							if err != nil {
								break
							}
							got = append(got, buf[:n]...)
							if len(got) > len(exp) || !bytes.Equal(got, exp[:len(got)]) {
								bad("C11:foreign-bytes-in-session", "the session accepted for %s (%s) delivered bytes that its peer did not write (%s)", p.name, key, desc)
								break
							}
							if len(got) == len(exp) {
								mu.Lock()
								complete[key] = true
								mu.Unlock()
							}
						}
						s.Close()
						if again >= 0 {
							vrt.Sleep(again)
							s.Close() // deferred + explicit Close: the second call must have no effect
						}
					})
				}
			})
			// bystander
			sB, sockB := dial(pB)
			wg.Add(1)
			vrt.Go("writer-B", func() { defer wg.Done(); write(pB, sB) })
			// first conversation at X, then the reconnect
			var sA2 *UDPSession
			var sockA2 *vfSock
			wg.Add(1)
			vrt.Go("client-X", func() {
				defer wg.Done()
				sA1, sockA1 := dial(pA1)
				write(pA1, sA1)
				if d := reAt - time.Duration(vrt.NowNS()); d > 0 {
					vrt.Sleep(d)
				}
				sA1.Close()
				sockA1.Close()
				base = 0
				sA2, sockA2 = dial(pA2)
				write(pA2, sA2)
			})
			// wait for the streams that must complete (bounded by the horizon of the idle deadline)
			keyA2, keyB := fmt.Sprintf("%s/%d", pA2.addr, pA2.conv), fmt.Sprintf("%s/%d", pB.addr, pB.conv)
			deadline := vrt.NowNS() + int64(8*time.Second)
			for {
				mu.Lock()
				ok := (complete[keyA2] && complete[keyB]) || fail != ""
				mu.Unlock()
				if ok || vrt.NowNS() > deadline {
					break
				}
				vrt.Sleep(20 * time.Millisecond)
			}
			mu.Lock()
			stop = true
			okA2, okB := complete[keyA2], complete[keyB]
			nA2, nB, nA1 := accepted[keyA2], accepted[keyB], accepted[fmt.Sprintf("%s/%d", pA1.addr, pA1.conv)]
			mu.Unlock()
			if !okA2 {
				bad("C11:stream-incomplete:reconnected-conversation", "the stream of the new conversation at the reused address did not arrive completely within 8 s (accepted %d times; %s)", nA2, desc)
			}
			if !okB {
				bad("C11:stream-incomplete:bystander", "the bystander's stream did not arrive completely within 8 s (%s)", desc)
			}
			if nA2 != 1 || nB != 1 || nA1 > 1 {
				bad("C11:accept-count:reconnect", "Accept counts: first conversation %d, new conversation %d, bystander %d (%s)", nA1, nA2, nB, desc)
			}
			wg.Wait()
			// end the handlers: closing the listener and the client sockets lets their reads run into the idle deadline
			sB.Close()
			sockB.Close()
			if sA2 != nil {
				sA2.Close()
				sockA2.Close()
			}
			lis.Close()
			lsock.Close()
			handlers.Wait()
			SystemTimedSched.Close()
		})
		v := explore.Verdict{}
		if out.Status == vrt.Pruned {
			v.Pruned = true
			return v
		}
		var fs strings.Builder
		for _, f := range fates {
			fs.WriteByte("-x?r?d"[min(f, 5)])
		}
		v.Outcome = fmt.Sprintf("%s %s fates=%s", out.Status, desc, fs.String())
		v.StateHash = explore.HashString(fmt.Sprintf("%s|%d|%d", v.Outcome, out.Steps, out.Now))
		v.NonTriv = true
		switch {
		case out.Status == vrt.Panicked:
			v.Violation, v.Signature = out.Fail+"\n"+out.Stack, "C11:panic:"+vfPanicSite(out.Stack)
		case out.Status == vrt.Failed:
			v.Violation, v.Signature = out.Fail, "C11:fail:"+firstWords(out.Fail, 5)
		case fail != "":
			v.Violation, v.Signature = fail, sig
		case out.Status != vrt.Done:
			v.Violation, v.Signature = fmt.Sprintf("execution ended %s (%s): application threads blocked: %v", out.Status, desc, vfBlocked(out)), "C11:not-completed:reconnect"
		}
		if v.Violation != "" {
			v.Detail = fmt.Sprintf("config %+v %s fates %v", cf, desc, fates)
		}
		return v
	}
}

func vfC11Reconnect(c *hx.Ctx, budget time.Duration) {
	K := hx.Pick(c, 3, 5)
	type u struct {
		name string
		cf   vfC11ReCfg
	}
	units := []u{
		{"reconnect", vfC11ReCfg{K: K}},
		{"reconnect/aes-128+fec", vfC11ReCfg{Cipher: "aes-128", DS: 2, PS: 1, K: K - 1}},
		{"reconnect/sched", vfC11ReCfg{K: 0, Bound: hx.Pick(c, 1, 2)}},
	}
	for _, x := range units {
		c.UnitBudget = budget
		c.Explore(x.name, map[string]any{"K": x.cf.K, "cipher": x.cf.Cipher, "fec": []int{x.cf.DS, x.cf.PS}, "deviation_bound": x.cf.Bound,
			"choices": "reconnect instant {40,90} ms x handler idle deadline {10 s, 60 ms} x second Close {none, at once, +30 ms} x fates of the first K datagrams after the reconnect"}, x.cf.Bound, vfC11ReRun(x.cf))
	}
}
