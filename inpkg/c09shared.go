//go:build verif

package kcp

import (
	"fmt"
	"net"
	"time"

	"verif/explore"
	"verif/hx"
	"verif/vrt"
)

// C09, sessions of one listener: every session accepted by a Listener seals its datagrams with the listener's ONE
// BlockCrypt, each from its own transmit goroutine, while the listener's receive loop opens incoming datagrams with the
// same object. Two dialled peers talk to one listener; both accepted sessions answer at the same time; every block
// operation of the listener's cipher is a scheduling point (white-box seam, as in C08), so the explorer can interleave
// the sessions inside the sealing of a datagram. Every datagram any end hands to its socket must decode under the
// independent decoder (per direction and peer), and the streams reassembled from the wire must equal what was written.
func vfC09SharedCipher(c *hx.Ctx) {
	type cl struct {
		ciph   string
		ds, ps int
	}
	classes := []cl{{"aes-128", 0, 0}, {"blowfish", 2, 1}, {"3des", 0, 0}, {"aes-gcm", 0, 0}}
	if !c.Quick() {
		classes = append(classes, cl{"sm4", 0, 0}, cl{"twofish", 2, 1}, cl{"xtea", 0, 0}, cl{"salsa20", 0, 0}, cl{"xor", 0, 0})
	}
	for _, k := range classes {
		k := k
		run := func(e *explore.Exec) explore.Verdict {
			var fail, sig string
			bad := func(s, format string, args ...any) {
				if fail == "" {
					sig, fail = s, fmt.Sprintf(format, args...)
				}
			}
			out := hx.RunVrt(e, vrt.Config{PreemptCost: 1, SwitchCost: 1, SelectCost: 1, TimerEarlyCost: -1, Horizon: 30 * time.Second, MaxSteps: 2000000}, func() {
				vfResetGlobals()
				vrt.SetPoolMode(vrt.PoolEager)
				n := vfNewNet()
				laddr := vfUDP(1, 9000)
				lsock := n.socket(laddr)
				const npeers = 2
				type peer struct {
					addr     net.Addr
					sock     *vfSock
					sess     *UDPSession
					up, down vfWireTrack
					back     []int
				}
				peers := make([]*peer, npeers)
				var lis *Listener
				vrt.Daemons(func() {
					SystemTimedSched = NewTimedSched(1)
					bl, _ := vfBlockCrypt(k.ciph)
					if b, ok := bl.(*blockCrypt); ok {
						b.block = vfYieldBlock{b.block}
					}
					lis, _ = ServeConn(bl, k.ds, k.ps, lsock)
					for i := range peers {
						p := &peer{addr: vfUDP(byte(10+i), 40000+i), back: [][]int{{40, 900}, {700, 33}}[i]}
						p.sock = n.socket(p.addr)
						bc, wc := vfBlockCrypt(k.ciph)
						wc.DataShards, wc.ParityShards = k.ds, k.ps
						p.up.init(wc)
						p.down.init(wc)
						p.sess, _ = NewConn3(uint32(500+i), laddr, bc, k.ds, k.ps, p.sock)
						p.sess.SetNoDelay(1, 10, 2, 1)
						peers[i] = p
					}
				})
				bySock := map[*vfSock]*peer{}
				for _, p := range peers {
					bySock[p.sock] = p
				}
				n.onSend = func(from, to *vfSock, data []byte) {
					var tr *vfWireTrack
					who := ""
					if p := bySock[from]; p != nil {
						tr, who = &p.up, fmt.Sprintf("peer %d", p.sess.GetConv())
					} else if p := bySock[to]; p != nil && from == lsock {
						tr, who = &p.down, fmt.Sprintf("the listener's session for peer %d", p.sess.GetConv())
					}
					if tr == nil {
						return
					}
					if msg := tr.observe(data); msg != "" {
						bad("C09:"+tr.lastSig+":sessions-sharing-the-listener's-cipher", "%s, datagram #%d: %s", who, tr.n, msg)
					}
				}
				var wg vrt.WaitGroup
				for i, p := range peers {
					i, p := i, p
					wg.Add(1)
					vrt.Go(fmt.Sprintf("peer-%d", i), func() {
						defer wg.Done()
						p.sess.Write(vfPayload(i+3, 20+i, 0))
						total := 0
						for _, b := range p.back {
							total += b
						}
						buf := make([]byte, 4096)
						p.sess.SetReadDeadline(vrt.Now().Add(20 * time.Second))
						for got := 0; got < total; {
							m, err := p.sess.Read(buf)
							if err != nil {
								bad("C09:shared-cipher:peer-did-not-receive-the-answer", "peer %d: Read failed after %d of %d bytes: %v", i, got, total, err)
								return
							}
							got += m
						}
					})
				}
				for range peers {
					wg.Add(1)
					vrt.Go("acceptor", func() {
						defer wg.Done()
						lis.SetReadDeadline(vrt.Now().Add(20 * time.Second))
						s, err := lis.AcceptKCP()
						if err != nil {
							bad("C09:shared-cipher:accept-failed", "Accept failed: %v", err)
							return
						}
						s.SetNoDelay(1, 10, 2, 1)
						buf := make([]byte, 64)
						s.SetReadDeadline(vrt.Now().Add(20 * time.Second))
						if _, err := s.Read(buf); err != nil {
							return
						}
						var p *peer
						for _, q := range peers {
							if q.sess.GetConv() == s.GetConv() {
								p = q
							}
						}
						off := 0
						for _, b := range p.back {
							s.Write(vfPayload(int(s.GetConv()%7), b, off))
							off += b
						}
					})
				}
				wg.Wait()
				vrt.Idle(300 * time.Millisecond)
				for i, p := range peers {
					var want []byte
					off := 0
					for _, b := range p.back {
						want = append(want, vfPayload(int(p.sess.GetConv()%7), b, off)...)
						off += b
					}
					if fail == "" && string(p.down.stream()) != string(want) {
						bad("C09:wire-stream-differs:sessions-sharing-the-listener's-cipher", "the stream reassembled from the listener's datagrams to peer %d (%d bytes) differs from what its session wrote (%d bytes)", i, len(p.down.stream()), len(want))
					}
				}
				for _, p := range peers {
					p.sess.Close()
				}
				lis.Close()
				vrt.Idle(100 * time.Millisecond)
			})
			v := explore.Verdict{Outcome: out.Status.String(), NonTriv: len(e.Choices()) > 0 || e.Cost() > 0, Pruned: out.Status == vrt.Pruned}
			v.StateHash = explore.HashString(fmt.Sprint(out.Status, out.Steps))
			switch {
			case out.Status == vrt.Pruned:
			case out.Status == vrt.Panicked:
				v.Violation, v.Signature = out.Fail+"\n"+out.Stack, "C09:shared-cipher:panic"
			case fail != "":
				v.Violation, v.Signature = fail, sig
			case out.Status != vrt.Done:
				v.Violation, v.Signature = fmt.Sprintf("execution ended %s (threads %v)", out.Status, vfBlocked(out)), "C09:shared-cipher:"+out.Status.String()
			}
			return v
		}
		c.UnitBudget = hx.Pick(c, 12*time.Second, 90*time.Second)
		// no state caching: the cache identifies executions by their happens-before order, which is only sound when every
		// shared access is ordered by it; whether the cipher's scratch state is so ordered is the very question here
		saved := hx.NoCache
		hx.NoCache = true
		c.Explore(fmt.Sprintf("wire-sessions-of-one-listener/cipher=%s/fec=%d,%d", k.ciph, k.ds, k.ps),
			map[string]any{"cipher": k.ciph, "fec": []int{k.ds, k.ps}, "peers": 2, "answers": [][]int{{40, 900}, {700, 33}}, "preemption_bound": hx.Pick(c, 1, 2)}, hx.Pick(c, 1, 2), run)
		hx.NoCache = saved
	}
}
