//go:build verif

package kcp

import (
	"fmt"
	"hash/maphash"
	"reflect"
	"sort"
	"strings"
	"unsafe"
)

// vfDeepHash hashes everything reachable from the given roots (unexported fields included) so that
// "bit-identical state before and after" can be asserted without listing fields — a field added by a
// later change of the library is covered automatically. Functions, channels' wait queues, mutexes and
// scratch buffers that carry no state between calls are skipped by type or name.
type vfHasher struct {
	buf  []byte
	seen map[uintptr]bool
}

var vfHashSeed = maphash.MakeSeed()
var vfHashBuf []byte

func (hs *vfHasher) sum() uint64 { return maphash.Bytes(vfHashSeed, hs.buf) }

func (hs *vfHasher) u64(x uint64) {
	hs.buf = append(hs.buf, byte(x), byte(x>>8), byte(x>>16), byte(x>>24), byte(x>>32), byte(x>>40), byte(x>>48), byte(x>>56))
}

func (hs *vfHasher) tag(b byte) { hs.buf = append(hs.buf, b) }

// per-type list of fields to visit (skip list applied once per type)
var vfFieldPlan = map[reflect.Type][]int{}

func vfPlan(t reflect.Type) []int {
	if p, ok := vfFieldPlan[t]; ok {
		return p
	}
	tn := t.Name()
	if i := strings.Index(tn, "["); i > 0 {
		tn = tn[:i]
	}
	p := []int{}
	for i := 0; i < t.NumField(); i++ {
		if !vfSkipFields[tn+"."+t.Field(i).Name] {
			p = append(p, i)
		}
	}
	vfFieldPlan[t] = p
	return p
}

var vfSkipTypes = map[string]bool{"vrt.Mutex": true, "vrt.RWMutex": true, "vrt.Once": true, "vrt.Value": true, "vrt.WaitGroup": true, "time.Time": true, "vrt.H": true}
var vfSkipTypeCache = map[reflect.Type]int8{} // 1 skip, 2 chan, 3 normal

var vfSkipFields = map[string]bool{
	"UDPSession.mu": true, "UDPSession.dieOnce": true, "UDPSession.socketReadErrorOnce": true, "UDPSession.socketWriteErrorOnce": true,
	"UDPSession.l": true, "UDPSession.conn": true, "UDPSession.block": true, "UDPSession.platform": true, "UDPSession.rateLimiter": true,
	"UDPSession.callbackForOOB": true, "UDPSession.rd": true, "UDPSession.wd": true, "UDPSession.socketReadError": true, "UDPSession.socketWriteError": true,
	"Listener.sessionLock": true, "Listener.dieOnce": true, "Listener.socketReadErrorOnce": true, "Listener.conn": true, "Listener.block": true,
	"Listener.rd": true, "Listener.socketReadError": true,
	"KCP.buffer": true, "KCP.output": true, "KCP.log": true, // staging buffer: scratch, rewritten by every flush
	"fecDecoder.codec": true, "fecDecoder.decodeCache": true, "fecDecoder.flagCache": true,
	"fecEncoder.codec": true, "fecEncoder.shardCache": true, "fecEncoder.encodeCache": true,
	"autoTune.sortCache": true, // scratch of FindPeriod
	"UDPSession.recvbuf": true, // scratch between Reads; the unread part is bufptr
	"Snmp.InCsumErrors":  true,
}

func vfDeepHash(roots ...any) uint64 {
	hs := &vfHasher{buf: vfHashBuf[:0], seen: map[uintptr]bool{}}
	for _, r := range roots {
		hs.walk(reflect.ValueOf(r), "")
	}
	vfHashBuf = hs.buf
	return hs.sum()
}

func (hs *vfHasher) walk(v reflect.Value, owner string) {
	if !v.IsValid() {
		hs.tag(0)
		return
	}
	switch v.Kind() {
	case reflect.Bool:
		if v.Bool() {
			hs.tag(2)
		} else {
			hs.tag(1)
		}
	case reflect.Int, reflect.Int8, reflect.Int16, reflect.Int32, reflect.Int64:
		hs.u64(uint64(v.Int()))
	case reflect.Uint, reflect.Uint8, reflect.Uint16, reflect.Uint32, reflect.Uint64, reflect.Uintptr:
		hs.u64(v.Uint())
	case reflect.Float32, reflect.Float64:
		hs.u64(uint64(int64(v.Float() * 1e6)))
	case reflect.String:
		hs.u64(uint64(v.Len()))
		hs.buf = append(hs.buf, v.String()...)
	case reflect.Func, reflect.UnsafePointer:
		// not state
	case reflect.Chan:
		hs.u64(uint64(v.Len()))
	case reflect.Interface:
		if v.IsNil() {
			hs.tag(0)
			return
		}
		hs.walk(v.Elem(), owner)
	case reflect.Ptr:
		if v.IsNil() {
			hs.tag(0)
			return
		}
		t := v.Type()
		kind := vfSkipTypeCache[t]
		if kind == 0 {
			kind = 3
			if strings.HasPrefix(t.String(), "*vrt.Chan[") {
				kind = 2
			}
			vfSkipTypeCache[t] = kind
		}
		if kind == 2 {
			// channel occupancy is state; wait queues are not
			e := v.Elem()
			hs.u64(uint64(e.FieldByName("buf").Len()))
			if e.FieldByName("closed").Bool() {
				hs.tag(9)
			}
			return
		}
		p := v.Pointer()
		if hs.seen[p] {
			hs.tag(7)
			return
		}
		hs.seen[p] = true
		hs.walk(v.Elem(), owner)
	case reflect.Slice:
		if v.IsNil() {
			hs.tag(3)
			return
		}
		hs.u64(uint64(v.Len()))
		if v.Type().Elem().Kind() == reflect.Uint8 {
			if v.Len() > 0 {
				hs.buf = append(hs.buf, unsafe.Slice((*byte)(unsafe.Pointer(v.Pointer())), v.Len())...)
			}
		} else {
			for i := 0; i < v.Len(); i++ {
				hs.walk(v.Index(i), owner)
			}
		}
	case reflect.Array:
		for i := 0; i < v.Len(); i++ {
			hs.walk(v.Index(i), owner)
		}
	case reflect.Map:
		keys := v.MapKeys()
		sort.Slice(keys, func(i, j int) bool { return fmt.Sprint(vfKeyOf(keys[i])) < fmt.Sprint(vfKeyOf(keys[j])) })
		hs.u64(uint64(len(keys)))
		for _, k := range keys {
			hs.buf = append(hs.buf, fmt.Sprint(vfKeyOf(k))...)
			hs.walk(v.MapIndex(k), owner)
		}
	case reflect.Struct:
		t := v.Type()
		kind := vfSkipTypeCache[t]
		if kind == 0 {
			kind = 3
			if vfSkipTypes[t.String()] {
				kind = 1
			}
			vfSkipTypeCache[t] = kind
		}
		if kind == 1 {
			return
		}
		hs.tag(11)
		for _, i := range vfPlan(t) {
			hs.walk(v.Field(i), "")
		}
		hs.tag(12)
	default:
		hs.tag(13)
	}
}

func vfKeyOf(k reflect.Value) any {
	switch k.Kind() {
	case reflect.String:
		return k.String()
	case reflect.Int, reflect.Int8, reflect.Int16, reflect.Int32, reflect.Int64:
		return fmt.Sprintf("%020d", k.Int())
	case reflect.Uint, reflect.Uint8, reflect.Uint16, reflect.Uint32, reflect.Uint64:
		return fmt.Sprintf("%020d", k.Uint())
	}
	return fmt.Sprint(k)
}

// vfExplainDiff hashes the top-level fields of the roots separately and names those that differ between two
// snapshots (for violation messages).
func vfFieldHashes(root any) map[string]uint64 {
	out := map[string]uint64{}
	v := reflect.ValueOf(root)
	for v.Kind() == reflect.Ptr && !v.IsNil() {
		v = v.Elem()
	}
	if v.Kind() != reflect.Struct {
		return out
	}
	t := v.Type()
	for i := 0; i < v.NumField(); i++ {
		fn := t.Field(i).Name
		if vfSkipFields[t.Name()+"."+fn] {
			continue
		}
		hs := &vfHasher{seen: map[uintptr]bool{}}
		hs.walk(v.Field(i), t.Name())
		out[t.Name()+"."+fn] = hs.sum()
	}
	return out
}

func vfDiffFields(a, b map[string]uint64) []string {
	var d []string
	for k, x := range a {
		if b[k] != x {
			d = append(d, k)
		}
	}
	sort.Strings(d)
	return d
}
