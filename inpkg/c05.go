//go:build verif

package kcp

import (
	"bytes"
	"encoding/binary"
	"fmt"
	"hash/crc32"
	"net"
	"time"

	"verif/hx"
	"verif/vrt"
	"verif/wire"
)

// C05: no datagram can crash or bloat the process.
//
// Structure-aware bounded-exhaustive input enumeration: (1) at every position of a real traffic history the
// destination's packetInput gets truncations/extensions and single (thorough: paired) boundary-value field
// edits of the genuine datagram — edited AFTER decryption and re-sealed with a valid CRC/tag, so that they
// reach the FEC and KCP layers — plus raw garbage; (2) the raw core's Input gets the product of header
// alphabets, including payloads beyond 1500 bytes; (3) the FEC decoder gets seqid x type x size x length
// alphabets. Oracle: no panic, C04 occupancy, bounded pool occupancy / shard sets / ack list.

// vfSeal wraps a plaintext body the way the session does (fresh nonce, CRC, encryption).
type vfSealer struct {
	bc    BlockCrypt
	ctr   uint64
	ciph  string
	nonce int
}

func vfNewSealer(ciph string) *vfSealer {
	bc, _ := vfBlockCrypt(ciph)
	return &vfSealer{bc: bc, ciph: ciph}
}

func (s *vfSealer) seal(body []byte) []byte {
	s.ctr++
	switch b := s.bc.(type) {
	case nil:
		return append([]byte(nil), body...)
	case *aeadCrypt:
		ns := b.NonceSize()
		buf := make([]byte, ns+len(body), ns+len(body)+b.Overhead())
		binary.LittleEndian.PutUint64(buf, s.ctr^0x5555aaaa5555aaaa)
		copy(buf[ns:], body)
		return b.Seal(buf[:ns], buf[:ns], buf[ns:], nil)
	default:
		buf := make([]byte, cryptHeaderSize+len(body))
		binary.LittleEndian.PutUint64(buf, s.ctr^0x5555aaaa5555aaaa)
		binary.LittleEndian.PutUint64(buf[8:], s.ctr*0x9e3779b97f4a7c15)
		copy(buf[cryptHeaderSize:], body)
		binary.LittleEndian.PutUint32(buf[nonceSize:], crc32.ChecksumIEEE(buf[cryptHeaderSize:]))
		s.bc.Encrypt(buf, buf)
		return buf
	}
}

type vfFieldEdit struct {
	off  int
	size int // 1, 2 or 4 bytes
	vals []uint64
	name string
}

func vfPutField(b []byte, off, size int, v uint64) {
	switch size {
	case 1:
		b[off] = byte(v)
	case 2:
		binary.LittleEndian.PutUint16(b[off:], uint16(v))
	case 4:
		binary.LittleEndian.PutUint32(b[off:], uint32(v))
	}
}

// vfBodyEdits lists boundary-value edits of a plaintext body relative to the destination core's state.
func vfBodyEdits(body []byte, fec bool, k *KCP, now uint32) []vfFieldEdit {
	var ed []vfFieldEdit
	off := 0
	if fec {
		if len(body) < fecHeaderSizePlus2 {
			return nil
		}
		cur := uint64(binary.LittleEndian.Uint32(body))
		ed = append(ed,
			vfFieldEdit{0, 4, []uint64{0, 1, cur + 1, cur - 1, cur + 3, cur + 1000, 1 << 31, 0xfffffffb, 0xfffffffc, 0xfffffffd, 0xfffffffe, 0xffffffff}, "fec.seqid"},
			vfFieldEdit{4, 2, []uint64{typeData, typeParity, typeOOB, 0, 0xf0, 0xf4, 0xffff, 81, 0x51f1}, "fec.type"},
			vfFieldEdit{6, 2, []uint64{0, 1, 2, 3, uint64(len(body)-6) + 1, uint64(len(body)-6) - 1, uint64(len(body) - 6 - 24), 1500, 0xffff}, "fec.size"})
		if binary.LittleEndian.Uint16(body[4:]) != typeData {
			return ed
		}
		off = fecHeaderSizePlus2
	}
	for off+IKCP_OVERHEAD <= len(body) {
		l := int(binary.LittleEndian.Uint32(body[off+20:]))
		rn, ru, sn := uint64(k.rcv_nxt), uint64(k.snd_una), uint64(k.snd_nxt)
		rw := uint64(k.rcv_wnd)
		ed = append(ed,
			vfFieldEdit{off + 0, 4, []uint64{0, uint64(k.conv) + 1, uint64(k.conv) - 1, 0xffffffff}, "kcp.conv"},
			vfFieldEdit{off + 4, 1, []uint64{0, 80, 81, 82, 83, 84, 85, 255}, "kcp.cmd"},
			vfFieldEdit{off + 5, 1, []uint64{0, 1, 2, 254, 255}, "kcp.frg"},
			vfFieldEdit{off + 6, 2, []uint64{0, 1, 32, 65535}, "kcp.wnd"},
			vfFieldEdit{off + 8, 4, []uint64{0, uint64(now), uint64(now) + 1, uint64(now) - 1, uint64(now) - 60000, uint64(now) + (1 << 31), 0xffffffff}, "kcp.ts"},
			vfFieldEdit{off + 12, 4, []uint64{rn - 1, rn, rn + 1, rn + rw - 1, rn + rw, rn + rw + 1, rn + (1 << 31), rn + (1 << 31) - 1, 0, 0xffffffff, ru, sn - 1, sn}, "kcp.sn"},
			vfFieldEdit{off + 16, 4, []uint64{ru - 1, ru, ru + 1, sn, sn + 1, sn + (1 << 31), 0, 0xffffffff}, "kcp.una"},
			vfFieldEdit{off + 20, 4, []uint64{0, 1, uint64(l) + 1, uint64(l) - 1, uint64(len(body) - off - 24), uint64(len(body)-off-24) + 1, 1500, 1501, 0x7fffffff, 0x80000000, 0xffffffff}, "kcp.len"})
		if l < 0 || off+IKCP_OVERHEAD+l > len(body) {
			break
		}
		off += IKCP_OVERHEAD + l
	}
	return ed
}

func vfC05(c *hx.Ctx) {
	c.Rule("(1) at every position of a real client/listener history, for every cipher class and FEC off/on: every truncation, extensions up to 1500, raw constant and two-byte datagrams, and every single boundary-value edit " +
		"(thorough: also every pair within one header) of every header field of the genuine datagram, edited after decryption and re-sealed with a valid CRC/tag; (2) raw KCP.Input with the product of header-field alphabets " +
		"and payload lengths up to 3000 bytes; (3) fecDecoder.decode with seqid x type x size x length alphabets. Oracle: no panic, delivery queue and reorder buffer within the receive window, ack list, shard sets and pool occupancy bounded. " +
		"Non-trivial = inputs that pass the integrity gate and reach the FEC/KCP layers.")
	c.Assume("arbitrary multi-field garbage outside the alphabets is not covered (that would be fuzzing)")
	pairs := !c.Quick()
	classes := []struct {
		ciph   string
		ds, ps int
	}{{"", 0, 0}, {"aes-128", 0, 0}, {"aes-gcm", 0, 0}, {"", 2, 1}, {"blowfish", 3, 2}, {"aes-gcm", 1, 1}, {"salsa20", 2, 2}, {"xor", 0, 0}}
	for ci, cl := range classes {
		name := fmt.Sprintf("session/cipher=%s/fec=%d,%d", cl.ciph, cl.ds, cl.ps)
		if c.Skip(name) {
			continue
		}
		start := time.Now()
		u := &hx.Unit{Name: name, Kind: "enum", Exhaustive: true, Params: map[string]any{"cipher": cl.ciph, "fec": []int{cl.ds, cl.ps}, "field_pairs": pairs}}
		var cases, reached, dgrams int64
		forgedGroups := 0
		viol := func(sig, msg string) {
			for _, v := range u.Violations {
				if v.Signature == sig {
					v.Count++
					return
				}
			}
			if len(u.Violations) < 6 {
				u.Violations = append(u.Violations, c.NewViolation(name, u.Params, sig, msg, ""))
			}
		}
		cf := vfPairCfg{Cipher: cl.ciph, DS: cl.ds, PS: cl.ps, SDS: -1, Stream: ci%2 == 0, NoDelay: [4]int{1, 10, 2, 1}, Writes: []int{40, 1300, 25}, WritesBack: []int{30, 700}, ReadBuf: 4096,
			Pool: vrt.PoolPlain, HorizonS: 20}
		_, wc := vfBlockCrypt(cl.ciph)
		wc.DataShards, wc.ParityShards = cl.ds, cl.ps
		sealer := vfNewSealer(cl.ciph)
		out := vrt.Run(vrt.Config{Chooser: vfDefaultChooser{}, TimerEarlyCost: -1, Horizon: 20 * time.Second, MaxSteps: 3000000}, func() {
			p := vfPairSetup(cf)
			if cl.ds > 0 {
				p.client.SetOOBHandler(func([]byte) {})
			}
			idx := 0
			poisoned := false
			p.net.fate = func(from, to *vfSock, data []byte, _ int) []time.Duration {
				idx++
				mine := c.Of <= 1 || idx%c.Of == c.Shard
				if !mine || poisoned || to == nil || time.Now().After(c.Deadline) {
					if mine && to != nil && !poisoned {
						u.Exhaustive, u.CapHit = false, "internal deadline"
					}
					return []time.Duration{p.net.Delay}
				}
				dgrams++
				toListener := to == p.lsock
				var sess *UDPSession
				if toListener {
					p.listener.sessionLock.RLock()
					sess = p.listener.sessions[from.addr.String()]
					p.listener.sessionLock.RUnlock()
				} else {
					sess = p.client
				}
				now := currentMs()
				feed := func(kind string, b []byte, src net.Addr) bool {
					cases++
					buf := make([]byte, len(b), 1500)
					copy(buf, b)
					panicked := false
					func() {
						defer func() {
							if r := recover(); r != nil {
								panicked = true
								poisoned = true
								viol("C05:panic:"+kind+":"+vfPanicSiteOf(), fmt.Sprintf("packetInput panicked on a %s input (%d bytes, datagram #%d of the history): %v", kind, len(b), idx, r))
							}
						}()
						if toListener {
							p.listener.packetInput(buf, src)
						} else {
							p.client.packetInput(buf)
						}
					}()
					if panicked {
						return false
					}
					// occupancy
					var list []*UDPSession
					if sess != nil {
						list = append(list, sess)
					}
					if toListener {
						p.listener.sessionLock.RLock()
						if s2 := p.listener.sessions[src.String()]; s2 != nil && s2 != sess {
							list = append(list, s2)
						}
						ns := len(p.listener.sessions)
						p.listener.sessionLock.RUnlock()
						if ns > 3 {
							viol("C05:session-table-grows", fmt.Sprintf("%d sessions in the listener table after inputs from 2 addresses", ns))
						}
					}
					for _, s := range list {
						k := s.kcp
						switch {
						case k.rcv_queue.Len() > int(k.rcv_wnd):
							viol("C05:delivery-queue-exceeds-window:"+kind, fmt.Sprintf("after a %s input the delivery queue holds %d segments, window %d", kind, k.rcv_queue.Len(), k.rcv_wnd))
						case k.rcv_buf.Len() > int(k.rcv_wnd):
							viol("C05:reorder-buffer-exceeds-window:"+kind, fmt.Sprintf("after a %s input the reorder buffer holds %d segments, window %d", kind, k.rcv_buf.Len(), k.rcv_wnd))
						case len(k.acklist) > 2*(mtuLimit/IKCP_OVERHEAD)+2:
							viol("C05:ack-list-unbounded:"+kind, fmt.Sprintf("after a %s input %d acknowledgements are pending", kind, len(k.acklist)))
						}
						if d := s.fecDecoder; d != nil {
							total := 0
							for _, sh := range d.shardSet {
								total += sh.Len()
							}
							if len(d.shardSet) > maxShardSets+3 || total > (maxShardSets+3)*256 {
								viol("C05:fec-shard-sets-unbounded:"+kind, fmt.Sprintf("after a %s input the FEC decoder holds %d shard sets with %d packets", kind, len(d.shardSet), total))
							}
						}
					}
					if o := vrt.GetPoolStats().Outstanding; o > devBacklog*2+4*256+1024 {
						viol("C05:pool-occupancy-unbounded:"+kind, fmt.Sprintf("after a %s input %d pooled buffers are outstanding", kind, o))
					}
					return true
				}
				foreign := vfUDP(66, 6666)
				// raw variants (before decryption)
				for l := 0; l < len(data); l++ {
					if !feed("truncated", data[:l], from.addr) {
						return nil
					}
				}
				for _, extra := range []int{1, 2, 23, 24, 25, 100} {
					if len(data)+extra <= 1500 {
						if !feed("extended", append(append([]byte{}, data...), make([]byte, extra)...), from.addr) {
							return nil
						}
					}
				}
				if idx <= 3 {
					for l := 0; l <= 1500; l++ {
						for _, fill := range []byte{0, 0xff, 0x51} {
							b := make([]byte, l)
							for k := range b {
								b[k] = fill
							}
							if !feed("constant", b, from.addr) {
								return nil
							}
						}
					}
				}
				// structure-aware variants (after decryption, re-sealed)
				body, _, _, ok, _ := wire.Decrypt(wc, data)
				if !ok || sess == nil && !toListener {
					return []time.Duration{p.net.Delay}
				}
				kref := p.client.kcp
				if sess != nil {
					kref = sess.kcp
				}
				edits := vfBodyEdits(body, cl.ds > 0, kref, now)
				apply := func(es ...[3]uint64) []byte {
					b := append([]byte(nil), body...)
					for _, e := range es {
						vfPutField(b, int(e[0]), int(e[1]), e[2])
					}
					return b
				}
				for i, e := range edits {
					for _, v := range e.vals {
						reached++
						if !feed("edit:"+e.name, sealer.seal(apply([3]uint64{uint64(e.off), uint64(e.size), v})), from.addr) {
							return nil
						}
						if toListener && (e.name == "kcp.conv" || e.name == "kcp.sn" || e.name == "fec.type") {
							// the same from an address without a session
							if !feed("edit:"+e.name+":foreign-address", sealer.seal(apply([3]uint64{uint64(e.off), uint64(e.size), v})), foreign) {
								return nil
							}
						}
						if pairs {
							for j := i + 1; j < len(edits) && j < i+9; j++ {
								for _, v2 := range edits[j].vals {
									reached++
									if !feed("edit:"+e.name+"+"+edits[j].name, sealer.seal(apply([3]uint64{uint64(e.off), uint64(e.size), v}, [3]uint64{uint64(edits[j].off), uint64(edits[j].size), v2})), from.addr) {
										return nil
									}
								}
							}
						}
					}
				}
				// short bodies of every type (valid CRC): the minimum-size checks in front of every header access
				for l := 0; l <= 40; l++ {
					for _, ty := range []uint16{typeData, typeParity, typeOOB, 0x0051} {
						b := make([]byte, l)
						if l >= 6 {
							binary.LittleEndian.PutUint16(b[4:], ty)
						}
						if l >= 4 {
							binary.LittleEndian.PutUint32(b, kref.conv)
						}
						reached++
						if !feed(fmt.Sprintf("sealed-short-typed-%#x", ty), sealer.seal(b), from.addr) {
							return nil
						}
						if toListener {
							if !feed(fmt.Sprintf("sealed-short-typed-%#x:foreign-address", ty), sealer.seal(b), foreign) {
								return nil
							}
						}
					}
				}
				// hostile but structurally plausible FEC groups: forged parity plus forged data packets make the decoder
				// reconstruct a packet whose size field is garbage
				if cl.ds > 0 && len(body) >= fecHeaderSizePlus2 {
					size := uint32(cl.ds + cl.ps)
					base := binary.LittleEndian.Uint32(body) / size * size
					for seed := 0; seed < hx.Pick(c, 120, 1500); seed++ {
						forgedGroups++
						gbase := base + uint32(10+forgedGroups)*size
						mkp := func(pos int, l int) []byte {
							b := make([]byte, l)
							binary.LittleEndian.PutUint32(b, gbase+uint32(pos))
							ty := uint16(typeData)
							if pos >= cl.ds {
								ty = typeParity
							}
							binary.LittleEndian.PutUint16(b[4:], ty)
							for k := 6; k < l; k++ {
								b[k] = byte((seed + 1) * (k + 3) * (pos + 7) >> 2)
							}
							if pos < cl.ds && l >= 8 {
								binary.LittleEndian.PutUint16(b[6:], uint16(l-6))
							}
							return b
						}
						reached++
						if !feed("forged-fec-group", sealer.seal(mkp(cl.ds, 8+seed%90)), from.addr) {
							return nil
						}
						for pos := 1; pos < cl.ds; pos++ {
							if !feed("forged-fec-group", sealer.seal(mkp(pos, 8+(seed*7+pos)%60)), from.addr) {
								return nil
							}
						}
					}
				}
				// sealed truncations of the plaintext (valid CRC over a short body)
				for l := 0; l <= len(body) && l <= 64; l++ {
					reached++
					if !feed("sealed-short-body", sealer.seal(body[:l]), from.addr) {
						return nil
					}
				}
				return []time.Duration{p.net.Delay}
			}
			var wg vrt.WaitGroup
			wg.Add(1)
			vrt.Go("traffic", func() { defer wg.Done(); p.traffic() })
			vrt.Idle(3 * time.Second) // forged packets may stall the stream; the history is what matters
			p.client.Close()
			p.listener.Close()
			p.csock.Close()
			p.lsock.Close()
			SystemTimedSched.Close()
		})
		if out.Status == vrt.Panicked {
			viol("C05:panic-in-library-goroutine:"+vfPanicSite(out.Stack), out.Fail+"\n"+out.Stack)
		}
		u.Executions, u.NonTrivial, u.EndStatesN = cases, reached, cases
		u.Notes = append(u.Notes, fmt.Sprintf("this shard: %d datagram positions, %d inputs, %d of them sealed with a valid integrity check", dgrams, cases, reached))
		u.Samples = append(u.Samples, map[string]any{"input": "genuine datagram #4 with kcp.len := 0xffffffff, re-sealed", "expected": "no panic, occupancy within bounds"})
		if len(u.Violations) > 0 {
			u.Exhaustive = false
		}
		u.WallS = time.Since(start).Seconds()
		c.AddUnit(u)
	}
	vfC05core(c)
	vfC05frag(c)
	vfC05sessfrag(c)
	vfC05fec(c)
	vfAdversarialBFS(c, "C05:", hx.Pick(c, 3, 4), false)
}

func vfPanicSiteOf() string {
	// innermost library frame of the current panic
	return vfPanicSite(string(vfStack()))
}

// raw core: product of header alphabets
func vfC05core(c *hx.Ctx) {
	if c.Skip("core-input") {
		return
	}
	start := time.Now()
	u := &hx.Unit{Name: "core-input", Kind: "enum", Exhaustive: true, Params: map[string]any{"alphabets": "conv x cmd x frg x wnd x ts x sn x una x declared-len x actual-len (up to 3000 bytes), 1-2 segments, 3 receiver states"}}
	viol := func(sig, msg string) {
		for _, v := range u.Violations {
			if v.Signature == sig {
				v.Count++
				return
			}
		}
		if len(u.Violations) < 6 {
			u.Violations = append(u.Violations, c.NewViolation("core-input", u.Params, sig, msg, ""))
		}
	}
	convs := []uint32{vfConv, vfConv + 1}
	cmds := []uint8{80, 81, 82, 83, 84, 85}
	frgs := []uint8{0, 255}
	wnds := []uint16{0, 32, 65535}
	tss := []uint32{0, 1000, 1 << 31}
	sns := []int64{-1, 0, 1, 3, 4, 5, 1 << 31}
	unas := []int64{-1, 0, 1, 2, 3, 1 << 31}
	lens := []int{0, 1, 16, 1476, 1500, 1501, 1600, 3000}
	decl := []int64{-1, 0, 1, -2, 0x7fffffff, 0xffffffff} // -1: actual, -2: actual+1
	idx := 0
	mk := func(state int) *KCP {
		k := NewKCP(vfConv, func([]byte, int) {})
		k.WndSize(4, 4)
		k.NoDelay(1, 10, 2, 1)
		switch state {
		case 1: // data outstanding
			k.Send(make([]byte, 100))
			k.Send(make([]byte, 100))
			k.flush(IKCP_FLUSH_FULL)
		case 2: // delivery queue full, something parked
			for sn := uint32(0); sn < 4; sn++ {
				k.Input(wire.EncodeSegment(wire.Seg{Conv: vfConv, Cmd: wire.CmdPush, Wnd: 32, Sn: sn, Data: []byte{1, 2, 3}}, -1), IKCP_PACKET_REGULAR, false)
			}
		}
		return k
	}
	for state := 0; state < 3; state++ {
		for _, conv := range convs {
			for _, cmd := range cmds {
				for _, frg := range frgs {
					for _, wnd := range wnds {
						for _, ts := range tss {
							for _, sn := range sns {
								for _, una := range unas {
									idx++
									if c.Of > 1 && idx%c.Of != c.Shard {
										continue
									}
									if c.Quick() && idx%3 != 0 {
										continue
									}
									for _, n := range lens {
										for _, dl := range decl {
											k := mk(state)
											base := int64(k.rcv_nxt)
											ub := int64(k.snd_una)
											d := int(dl)
											switch dl {
											case -1:
												d = n
											case -2:
												d = n + 1
											}
											pkt := wire.EncodeSegment(wire.Seg{Conv: conv, Cmd: cmd, Frg: frg, Wnd: wnd, Ts: ts, Sn: uint32(base + sn), Una: uint32(ub + una), Data: make([]byte, n)}, d)
											// a second, valid segment behind it
											pkt = append(pkt, wire.EncodeSegment(wire.Seg{Conv: vfConv, Cmd: wire.CmdPush, Wnd: 32, Sn: uint32(base), Data: []byte{9}}, -1)...)
											u.Executions++
											if cmd >= 81 && cmd <= 84 && conv == vfConv {
												u.NonTrivial++
											}
											func() {
												defer func() {
													if r := recover(); r != nil {
														cls := "other"
														if n > 1500 {
															cls = "segment-longer-than-a-pooled-buffer"
														}
														viol("C05:core-input-panic:"+cls+":"+vfPanicSiteOf(), fmt.Sprintf("KCP.Input panicked on cmd=%d sn=rcv_nxt%+d una=snd_una%+d declared len=%d, %d payload bytes (state %d): %v", cmd, sn, una, d, n, state, r))
													}
												}()
												for _, pt := range []PacketType{IKCP_PACKET_REGULAR, IKCP_PACKET_FEC} {
													k.Input(pkt, pt, state == 1)
												}
												k.flush(IKCP_FLUSH_FULL)
												if k.rcv_queue.Len() > int(k.rcv_wnd) || k.rcv_buf.Len() > int(k.rcv_wnd) {
													viol("C05:core-occupancy", fmt.Sprintf("after forged input: delivery queue %d, reorder buffer %d, window %d", k.rcv_queue.Len(), k.rcv_buf.Len(), k.rcv_wnd))
												}
												if len(k.acklist) > 0 {
													viol("C05:core-acklist-not-flushed", "acknowledgements left after a full flush")
												}
												vfReadLikeSession(k)
											}()
										}
									}
								}
							}
						}
					}
				}
			}
		}
		if time.Now().After(c.Deadline) {
			u.Exhaustive, u.CapHit = false, "internal deadline"
			break
		}
	}
	u.Samples = append(u.Samples, map[string]any{"segment": "cmd=81 sn=rcv_nxt+3 una=snd_una-1 declared_len=0xffffffff payload=1600 bytes", "then": "a valid PUSH behind it"})
	u.EndStatesN = u.Executions
	if len(u.Violations) > 0 {
		u.Exhaustive = false
	}
	u.WallS = time.Since(start).Seconds()
	c.AddUnit(u)
}

// vfReadLikeSession consumes what is readable the way UDPSession.Read does: a buffer of exactly PeekSize() bytes.
// A panic propagates to the caller's recover.
func vfReadLikeSession(k *KCP) {
	for i := 0; i < 16; i++ {
		size := k.PeekSize()
		if size <= 0 {
			return
		}
		if n := k.Recv(make([]byte, size)); n < 0 {
			return
		}
	}
}

// vfC05frag: fragment counts are attacker-controlled too. Every sequence of 1-4 PUSH segments with frg from a boundary
// alphabet and sequence numbers covering rcv_nxt.. in several arrival orders, in message and stream mode, for two window
// sizes, read the way a session reads (buffer sized by PeekSize) between the inputs or only at the end, then with a
// one-byte-short and an oversize buffer.
func vfC05frag(c *hx.Ctx) {
	if c.Skip("core-fragments") || (c.Of > 1 && c.Shard != 2%c.Of) {
		return
	}
	start := time.Now()
	u := &hx.Unit{Name: "core-fragments", Kind: "enum", Exhaustive: true, Params: map[string]any{"frg_alphabet": []int{0, 1, 2, 3, 255}, "segments": "1..4", "orders": "in order, reversed, first two swapped, duplicated first",
		"modes": "message/stream", "windows": []int{4, 32}, "reads": "PeekSize-sized buffer between inputs / at the end; short and oversize buffers"}}
	viol := func(sig, msg string) {
		for _, v := range u.Violations {
			if v.Signature == sig {
				v.Count++
				return
			}
		}
		if len(u.Violations) < 6 {
			u.Violations = append(u.Violations, c.NewViolation("core-fragments", u.Params, sig, msg, ""))
		}
	}
	frgs := []uint8{0, 1, 2, 3, 255}
	var seq []uint8
	var rec func()
	run := func() {
		n := len(seq)
		orders := [][]int{nil, nil, nil, nil}
		for i := 0; i < n; i++ {
			orders[0] = append(orders[0], i)
			orders[1] = append(orders[1], n-1-i)
		}
		orders[2] = append([]int{}, orders[0]...)
		if n >= 2 {
			orders[2][0], orders[2][1] = 1, 0
		}
		orders[3] = append([]int{0}, orders[0]...)
		for oi, ord := range orders {
			for _, stream := range []int{0, 1} {
				for _, wnd := range []int{4, 32} {
					for _, between := range []bool{false, true} {
						u.Executions++
						u.NonTrivial++
						func() {
							defer func() {
								if r := recover(); r != nil {
									viol("C05:panic-after-forged-fragment-counts:"+vfPanicSiteOf(), fmt.Sprintf("frg sequence %v (arrival order %d, stream=%d, window %d, reads between inputs=%v): %v", seq, oi, stream, wnd, between, r))
								}
							}()
							k := NewKCP(vfConv, func([]byte, int) {})
							k.WndSize(wnd, wnd)
							k.NoDelay(1, 10, 2, 1)
							k.stream = int32(stream)
							for _, i := range ord {
								data := make([]byte, 100)
								k.Input(wire.EncodeSegment(wire.Seg{Conv: vfConv, Cmd: wire.CmdPush, Frg: seq[i], Wnd: 32, Sn: uint32(i), Data: data}, -1), IKCP_PACKET_REGULAR, false)
								if between {
									vfReadLikeSession(k)
								}
								if k.rcv_queue.Len() > int(k.rcv_wnd) || k.rcv_buf.Len() > int(k.rcv_wnd) {
									viol("C05:core-occupancy", fmt.Sprintf("delivery queue %d, reorder buffer %d, window %d", k.rcv_queue.Len(), k.rcv_buf.Len(), k.rcv_wnd))
								}
							}
							k.flush(IKCP_FLUSH_FULL)
							if size := k.PeekSize(); size > 1 {
								if r := k.Recv(make([]byte, size-1)); r >= size {
									viol("C05:recv-overruns-buffer", fmt.Sprintf("Recv returned %d for a %d-byte buffer", r, size-1))
								}
							}
							k.Recv(make([]byte, 1))
							vfReadLikeSession(k)
							k.Recv(make([]byte, 65536))
						}()
					}
				}
			}
		}
	}
	rec = func() {
		if len(seq) > 0 {
			run()
		}
		if len(seq) == 4 {
			return
		}
		for _, f := range frgs {
			seq = append(seq, f)
			rec()
			seq = seq[:len(seq)-1]
		}
	}
	rec()
	u.Samples = append(u.Samples, map[string]any{"frg_sequence": []int{1, 1, 0}, "read": "buffer of PeekSize() bytes"})
	u.EndStatesN = u.Executions
	if len(u.Violations) > 0 {
		u.Exhaustive = false
	}
	u.WallS = time.Since(start).Seconds()
	c.AddUnit(u)
}

func vfC05fec(c *hx.Ctx) {
	if c.Skip("fec-decode") || (c.Of > 1 && c.Shard != 1) {
		return
	}
	start := time.Now()
	u := &hx.Unit{Name: "fec-decode", Kind: "enum", Exhaustive: true, Params: map[string]any{"alphabets": "seqid x type x size x length 6..1500 (strided) x decoder ratio, sequences of 40 packets"}}
	viol := func(sig, msg string) {
		for _, v := range u.Violations {
			if v.Signature == sig {
				v.Count++
				return
			}
		}
		if len(u.Violations) < 6 {
			u.Violations = append(u.Violations, c.NewViolation("fec-decode", u.Params, sig, msg, ""))
		}
	}
	for _, dp := range [][2]int{{1, 1}, {2, 1}, {3, 2}, {10, 3}, {128, 127}} {
		size := uint32(dp[0] + dp[1])
		paws := uint32(0xffffffff) / size * size
		seqids := []uint32{0, 1, size - 1, size, size + 1, 1000, 1 << 31, paws - 1, paws, paws + 1, 0xffffffff}
		types := []uint16{typeData, typeParity, typeOOB, 0, 0xffff}
		sizes := []uint16{0, 1, 2, 3, 20, 1492, 1500, 0xffff}
		lens := []int{6, 7, 8, 9, 30, 700, 1499, 1500}
		dec := newFECDecoder(dp[0], dp[1])
		n := 0
		for rep := 0; rep < 3; rep++ {
			for _, id := range seqids {
				for _, ty := range types {
					for _, sz := range sizes {
						for _, l := range lens {
							b := make([]byte, l)
							binary.LittleEndian.PutUint32(b, id+uint32(rep))
							binary.LittleEndian.PutUint16(b[4:], ty)
							if l >= 8 {
								binary.LittleEndian.PutUint16(b[6:], sz)
							}
							for k := 8; k < l; k++ {
								b[k] = byte(k * n)
							}
							n++
							u.Executions++
							u.NonTrivial++
							func() {
								defer func() {
									if r := recover(); r != nil {
										viol("C05:fec-decode-panic:"+vfPanicSiteOf(), fmt.Sprintf("fecDecoder(%d/%d).decode panicked on seqid=%d type=%#x size=%d len=%d: %v", dp[0], dp[1], id, ty, sz, l, r))
										dec = newFECDecoder(dp[0], dp[1])
									}
								}()
								for _, r := range dec.decode(fecPacket(b)) {
									if len(r) > 1500 {
										viol("C05:fec-recovered-too-long", fmt.Sprintf("recovered buffer of %d bytes", len(r)))
									}
									defaultBufferPool.Put(r)
								}
								total := 0
								for _, sh := range dec.shardSet {
									total += sh.Len()
								}
								if len(dec.shardSet) > maxShardSets+3 || total > (maxShardSets+3)*256 {
									viol("C05:fec-shard-sets-unbounded", fmt.Sprintf("decoder holds %d shard sets with %d packets after %d forged packets", len(dec.shardSet), total, n))
								}
								if dec.autoTune.count > maxAutoTuneSamples {
									viol("C05:autotune-ring-unbounded", fmt.Sprintf("%d samples", dec.autoTune.count))
								}
							}()
						}
					}
				}
			}
		}
	}
	// stale floods: a reference id is established (by one packet, or by a run of genuine groups), then a
	// sequence of well-formed packets follows of which each lies in a different group behind the window (every
	// stride and start distance of the alphabet, data or parity position, with and without a fresh packet in
	// between): occupancy is checked after every packet.
	for _, dp := range [][2]int{{1, 1}, {2, 1}, {3, 2}, {10, 3}} {
		size := uint32(dp[0] + dp[1])
		paws := uint32(0xffffffff) / size * size
		for _, newest := range []uint32{size * 1000, 1<<31 - 1<<31%size, paws - 2*size, size * 3} {
			for _, warm := range []int{1, 12} {
				for _, startBehind := range []uint32{maxShardSets + 1, maxShardSets + 2, 100, 1 << 20} {
					for _, stride := range []uint32{1, 2, 7} {
						for _, pos := range []uint32{0, size - 1} {
							for _, fresh := range []int{0, 16} {
								dec := newFECDecoder(dp[0], dp[1])
								feed := func(id uint32) bool {
									id %= paws
									b := make([]byte, 40)
									binary.LittleEndian.PutUint32(b, id)
									ty := uint16(typeData)
									if id%size >= uint32(dp[0]) {
										ty = typeParity
									}
									binary.LittleEndian.PutUint16(b[4:], ty)
									binary.LittleEndian.PutUint16(b[6:], 34)
									b[8] = byte(id)
									ok := true
									func() {
										defer func() {
											if r := recover(); r != nil {
												viol("C05:fec-decode-panic:"+vfPanicSiteOf(), fmt.Sprintf("fecDecoder(%d/%d).decode panicked in a stale flood at seqid=%d: %v", dp[0], dp[1], id, r))
												ok = false
											}
										}()
										for _, r := range dec.decode(fecPacket(b)) {
											defaultBufferPool.Put(r)
										}
									}()
									return ok
								}
								// establish the reference: the last `warm` groups before newest, all packets in order
								for g := uint32(warm); g >= 1; g-- {
									for i := uint32(0); i < size; i++ {
										feed(newest + paws - g*size + i)
									}
								}
								feed(newest)
								peak, at := 0, 0
								for k := 0; k < 64; k++ {
									u.Executions++
									u.NonTrivial++
									if !feed(newest + paws - (startBehind+uint32(k)*stride)*size + pos) {
										break
									}
									if fresh > 0 && k%fresh == fresh-1 {
										feed(newest + 1 + uint32(k/fresh))
									}
									if len(dec.shardSet) > peak {
										peak, at = len(dec.shardSet), k
									}
								}
								if peak > maxShardSets+3 {
									viol("C05:fec-shard-sets-unbounded:stale-flood", fmt.Sprintf("decoder(%d/%d) with newest id %d held %d shard sets after %d packets lying in distinct groups %d.. groups behind it (stride %d, position %d, fresh packet every %d)", dp[0], dp[1], newest, peak, at+1, startBehind, stride, pos, fresh))
								}
							}
						}
					}
				}
			}
		}
	}
	u.Samples = append(u.Samples, map[string]any{"packet": "seqid=paws-1 type=0xf2 size=0xffff len=9", "decoder": "3/2"})
	u.EndStatesN = u.Executions
	if len(u.Violations) > 0 {
		u.Exhaustive = false
	}
	u.WallS = time.Since(start).Seconds()
	c.AddUnit(u)
}

// vfC05sessfrag: forged fragment counts against a REAL session and its Read: every sequence of 1-3 in-order PUSH datagrams
// with frg from {0,1,2,255} and payloads of 1000 or mss bytes (so that a "message" assembled from them exceeds the 1500-byte
// staging buffer of Read), sent to the dialled and to the accepted session of an established pair, then read by the
// application with buffers smaller than, equal to and larger than such a message. Oracle: no panic anywhere (Read runs
// under the session mutex), what is read is a prefix of the forged payloads in order.
func vfC05sessfrag(c *hx.Ctx) {
	if c.Skip("session-fragments") || (c.Of > 1 && c.Shard != 3%c.Of) {
		return
	}
	start := time.Now()
	frgs := []uint8{0, 1, 2, 255}
	sizes := []int{1000, IKCP_MTU_DEF - IKCP_OVERHEAD}
	bufs := []int{512, 1500, 4096}
	u := &hx.Unit{Name: "session-fragments", Kind: "enum", Exhaustive: true, Params: map[string]any{"frg_alphabet": frgs, "datagrams": "1..3", "payload_sizes": sizes, "read_buffers": bufs, "targets": "dialled, accepted"}}
	viol := func(sig, msg string) {
		for _, v := range u.Violations {
			if v.Signature == sig {
				v.Count++
				return
			}
		}
		if len(u.Violations) < 6 {
			u.Violations = append(u.Violations, c.NewViolation("session-fragments", u.Params, sig, msg, ""))
		}
	}
	var seqs [][]uint8
	var rec func(cur []uint8)
	rec = func(cur []uint8) {
		if len(cur) > 0 {
			seqs = append(seqs, append([]uint8{}, cur...))
		}
		if len(cur) == 3 {
			return
		}
		for _, f := range frgs {
			rec(append(cur, f))
		}
	}
	rec(nil)
	var cases, big int64
	for _, seq := range seqs {
		for _, size := range sizes {
			for _, rb := range bufs {
				for _, accepted := range []bool{false, true} {
					if time.Now().After(c.Deadline) {
						u.Exhaustive, u.CapHit = false, "internal deadline"
						break
					}
					cases++
					if len(seq)*size > 1500 {
						big++
					}
					label := fmt.Sprintf("frg %v, %d-byte payloads, %d-byte read buffer, accepted=%v", seq, size, rb, accepted)
					var msg string
					cf := vfPairCfg{SDS: -1, Stream: true, NoDelay: [4]int{1, 10, 2, 1}, Writes: []int{10}, WritesBack: []int{10}, ReadBuf: 64, Pool: vrt.PoolPlain, HorizonS: 20}
					out := vrt.Run(vrt.Config{Chooser: vfDefaultChooser{}, TimerEarlyCost: -1, Horizon: 20 * time.Second, MaxSteps: 3000000}, func() {
						p := vfPairSetup(cf)
						p.traffic()
						p.mu.Lock()
						srv := p.server
						p.mu.Unlock()
						if srv == nil {
							msg = "setup: no accepted session"
							return
						}
						target, sock, from := p.client, p.csock, net.Addr(p.laddr)
						if accepted {
							target, sock, from = srv, p.lsock, net.Addr(p.caddr)
						}
						target.mu.Lock()
						sn, una := target.kcp.rcv_nxt, target.kcp.snd_una
						target.mu.Unlock()
						var want []byte
						for i, f := range seq {
							data := vfPayload(5, size, i*size)
							want = append(want, data...)
							sock.inject(from, wire.EncodeSegment(wire.Seg{Conv: vfConv, Cmd: wire.CmdPush, Frg: f, Wnd: 32, Sn: sn + uint32(i), Una: una, Data: data}, -1))
						}
						vrt.Sleep(20 * time.Millisecond)
						var got []byte
						buf := make([]byte, rb)
						for {
							target.SetReadDeadline(vrt.Now().Add(30 * time.Millisecond))
							n, err := target.Read(buf)
							if err != nil {
								break
							}
							got = append(got, buf[:n]...)
							if len(got) > len(want) {
								break
							}
						}
						if len(got) > len(want) || !bytes.Equal(got, want[:len(got)]) {
							msg = fmt.Sprintf("the application read %d bytes that are not a prefix of the %d forged payload bytes", len(got), len(want))
						}
						p.client.Close()
						p.listener.Close()
						p.csock.Close()
						p.lsock.Close()
						SystemTimedSched.Close()
					})
					switch {
					case out.Status == vrt.Panicked:
						viol("C05:panic-after-forged-fragment-counts:session:"+vfPanicSite(out.Stack), label+": "+out.Fail+"\n"+out.Stack)
					case msg != "":
						viol("C05:session-read-after-forged-fragment-counts", label+": "+msg)
					}
				}
			}
		}
	}
	u.Executions, u.NonTrivial, u.EndStatesN = cases, big, cases
	u.Notes = append(u.Notes, fmt.Sprintf("%d cases, %d of them with a forged message larger than Read's 1500-byte staging buffer", cases, big))
	if len(u.Violations) > 0 {
		u.Exhaustive = false
	}
	u.WallS = time.Since(start).Seconds()
	c.AddUnit(u)
}

func init() { hx.Register("C05", vfC05) }
