//go:build verif

package kcp

import (
	"bytes"
	"fmt"
	"net"
	"strings"
	"time"

	"verif/explore"
	"verif/hx"
	"verif/vrt"
	"verif/wire"
)

// Session pair: a dialled client (NewConn3) and a listener (ServeConn) on the virtual network, running
// the real session code (postProcess, readLoop/monitor, update via a per-execution TimedSched) on the
// virtual runtime. Application threads write and read; the explorer owns the schedule and the fate of
// the first K datagrams.

type vfPairCfg struct {
	Cipher     string // "", aes-128, aes-256, blowfish, salsa20, xor, none, aes-gcm, ...
	DS, PS     int    // FEC at the client
	SDS, SPS   int    // FEC at the listener (-1 = same as client)
	Stream     bool
	WriteDelay bool
	AckNoDelay bool
	NoDelay    [4]int
	SndWnd     int
	RcvWnd     int
	Mtu        int
	Writes     []int // client -> server application writes
	WritesBack []int // server -> client
	ReadBuf    int
	K          int
	Fates      []int
	Delay      time.Duration
	Pool       vrt.PoolMode
	// scheduling
	Preempt, Switch, Select int8
	Owners                  []string
	HorizonS                int
	StrAddr                 bool // use non-UDP address types (string comparison paths)
	Wire                    bool // decode every datagram with the independent decoder (C09) and check sizes (C10)
	EncBack                 int  // white-box: the client's FEC encoder starts this many groups before its wrap value (reachable after ~2^32 packets)
	Dup                     int  // SetDUP(n) on both sessions (duplicate datagrams; exercises the transmit queue's buffer ownership)
	UnlockPoints            bool // extra scheduling point after every Mutex.Unlock (code that touches guarded state after releasing the lock)
	Batch                   int  // 1 = the Linux batch read/transmit paths on a virtual batch connection, 2 = also short sendmmsg counts, 3 = once a partial count followed by an error
	GapAfter                int  // the client writer idles GapMs after this many writes (0 = never)
	GapMs                   int
}

func vfBlockCrypt(name string) (BlockCrypt, wire.Config) {
	key := vfKey(3, 32)
	var bc BlockCrypt
	wc := wire.Config{}
	switch name {
	case "":
		return nil, wc
	case "aes-128":
		bc, _ = NewAESBlockCrypt(key[:16])
		wc = wire.Config{Cipher: "aes", Key: key[:16]}
	case "aes-192":
		bc, _ = NewAESBlockCrypt(key[:24])
		wc = wire.Config{Cipher: "aes", Key: key[:24]}
	case "aes-256":
		bc, _ = NewAESBlockCrypt(key[:32])
		wc = wire.Config{Cipher: "aes", Key: key[:32]}
	case "tea":
		bc, _ = NewTEABlockCrypt(key[:16])
		wc = wire.Config{Cipher: "tea", Key: key[:16]}
	case "xtea":
		bc, _ = NewXTEABlockCrypt(key[:16])
		wc = wire.Config{Cipher: "xtea", Key: key[:16]}
	case "blowfish":
		bc, _ = NewBlowfishBlockCrypt(key[:32])
		wc = wire.Config{Cipher: "blowfish", Key: key[:32]}
	case "cast5":
		bc, _ = NewCast5BlockCrypt(key[:16])
		wc = wire.Config{Cipher: "cast5", Key: key[:16]}
	case "3des":
		bc, _ = NewTripleDESBlockCrypt(key[:24])
		wc = wire.Config{Cipher: "3des", Key: key[:24]}
	case "twofish":
		bc, _ = NewTwofishBlockCrypt(key[:32])
		wc = wire.Config{Cipher: "twofish", Key: key[:32]}
	case "sm4":
		bc, _ = NewSM4BlockCrypt(key[:16])
		wc = wire.Config{Cipher: "sm4", Key: key[:16]}
	case "salsa20":
		bc, _ = NewSalsa20BlockCrypt(key[:32])
		wc = wire.Config{Cipher: "salsa20", Key: key[:32]}
	case "xor":
		bc, _ = NewSimpleXORBlockCrypt(key[:32])
		wc = wire.Config{Cipher: "xor", Key: key[:32]}
	case "none":
		bc, _ = NewNoneBlockCrypt(key[:16])
		wc = wire.Config{Cipher: "none", Key: key[:16]}
	case "aes-gcm":
		bc, _ = NewAESGCMCrypt(key[:16])
		wc = wire.Config{Cipher: "aes-gcm", Key: key[:16]}
	default:
		panic("unknown cipher " + name)
	}
	return bc, wc
}

// vfPair is the running pair.
type vfPair struct {
	cfg      vfPairCfg
	net      *vfNet
	csock    *vfSock
	lsock    *vfSock
	client   *UDPSession
	listener *Listener
	server   *UDPSession
	caddr    net.Addr
	laddr    net.Addr
	wcfg     [2]wire.Config // framing of client / listener
	mu       vrt.Mutex      // protects the fields below (shared between harness threads)
	fail     string
	sig      string
	fates    []int
	wireC2S  vfWireTrack
	wireS2C  vfWireTrack
	maxDgram int
	mtuNow   int             // C10: MTU currently in force at the client (0 = configured)
	shrunk   bool            // C10: the MTU was reduced while data was queued or in flight
	exempt   int             // C10: client datagrams still in the transmit pipeline when SetMtu was called
	altSizes []int           // C10: write sequence decided at run time
	cIdx     int             // C10: client datagrams seen at the socket so far
	shrinkAt int             // C10: value of cIdx when the MTU was last reduced (-1 = never)
	openGrp  map[uint32]bool // C10: FEC groups that held (or were about to receive) packets produced under the old MTU when it shrank
}

func (p *vfPair) owned(sig string) bool {
	if len(p.cfg.Owners) == 0 {
		return true
	}
	for _, o := range p.cfg.Owners {
		if strings.HasPrefix(sig, o) {
			return true
		}
	}
	return false
}

// bad records the first violation (callable from any harness thread).
func (p *vfPair) bad(sig, format string, args ...any) {
	if !p.owned(sig) {
		return
	}
	p.mu.Lock()
	if p.fail == "" {
		p.sig, p.fail = sig, fmt.Sprintf(format, args...)+fmt.Sprintf(" [virtual time %s]", time.Duration(vrt.NowNS()))
	}
	p.mu.Unlock()
}

func (p *vfPair) failed() bool {
	p.mu.Lock()
	defer p.mu.Unlock()
	return p.fail != ""
}

const vfConv = 0x0c0ffee1

func (c vfPairCfg) fatesOf() []int {
	if len(c.Fates) == 0 {
		return vfAllFates
	}
	return c.Fates
}

// vfPairSetup builds network, listener and client (inside a vrt execution).
func vfPairSetup(cfg vfPairCfg) *vfPair {
	vfResetGlobals()
	vfBatchMode, vfBatchPartial, vfBatchFault = cfg.Batch > 0, cfg.Batch == 2, cfg.Batch == 3
	vrt.SetPoolMode(cfg.Pool)
	p := &vfPair{cfg: cfg, net: vfNewNet(), shrinkAt: -1}
	if cfg.Delay > 0 {
		p.net.Delay = cfg.Delay
	}
	if cfg.StrAddr {
		p.caddr, p.laddr = vfStrAddr("client-1"), vfStrAddr("listener-1")
	} else {
		p.caddr, p.laddr = vfUDP(2, 40000), vfUDP(1, 9000)
	}
	p.csock, p.lsock = p.net.socket(p.caddr), p.net.socket(p.laddr)
	sds, sps := cfg.SDS, cfg.SPS
	if sds < 0 {
		sds, sps = cfg.DS, cfg.PS
	}
	bcC, wc := vfBlockCrypt(cfg.Cipher)
	bcL, _ := vfBlockCrypt(cfg.Cipher)
	p.wcfg[0], p.wcfg[1] = wc, wc
	p.wcfg[0].DataShards, p.wcfg[0].ParityShards = cfg.DS, cfg.PS
	p.wcfg[1].DataShards, p.wcfg[1].ParityShards = sds, sps
	p.wireC2S.init(p.wcfg[0])
	p.wireS2C.init(p.wcfg[1])
	fates := cfg.fatesOf()
	p.net.fate = func(from, to *vfSock, data []byte, idx int) []time.Duration {
		f := vfDeliver
		if idx < cfg.K && len(fates) > 1 {
			f = fates[vrt.Choose(len(fates), "fate")]
		}
		p.fates = append(p.fates, f)
		d := p.net.Delay
		switch f {
		case vfDrop:
			return nil
		case vfDup:
			return []time.Duration{d, d + 3*time.Millisecond}
		case vfReorder:
			return []time.Duration{d + 35*time.Millisecond}
		case vfLate:
			return []time.Duration{d + 450*time.Millisecond}
		}
		return []time.Duration{d}
	}
	if cfg.Wire {
		p.net.onSend = func(from, to *vfSock, data []byte) {
			tr, who, sess := &p.wireC2S, "client", p.client
			if from == p.lsock {
				tr, who, sess = &p.wireS2C, "listener", p.server
			}
			if len(data) > p.maxDgram {
				p.maxDgram = len(data)
			}
			limit := cfg.Mtu
			if limit == 0 {
				limit = IKCP_MTU_DEF
			}
			limit = min(limit, 1500)
			_ = sess
			sig := "C10:datagram-exceeds-mtu"
			if from == p.csock && p.mtuNow != 0 {
				limit = p.mtuNow
				if p.shrunk {
					sig = "C10:datagram-exceeds-mtu:after-mtu-shrink-with-data-queued"
				}
			}
			if from == p.csock {
				p.cIdx++
				if f, err := wire.Decode(p.wcfg[0], data); err == nil && f.HasFEC && f.Type == wire.TypeParity {
					g := f.Seqid / uint32(p.wcfg[0].DataShards+p.wcfg[0].ParityShards)
					if p.openGrp[g] {
						// parity must be as long as the longest data packet of its group; this group was open when the MTU shrank
						sig = "C10:datagram-exceeds-mtu:fec-parity-of-a-group-that-was-open-when-the-mtu-shrank"
					}
				}
			}
			if from == p.csock && p.exempt > 0 {
				p.exempt--
			} else if len(data) > limit {
				p.bad(sig, "%s handed a %d-byte datagram to the socket, session MTU is %d", who, len(data), limit)
			}
			if len(data) == 0 {
				p.bad("C10:empty-datagram", "%s handed an empty datagram to the socket", who)
			}
			if msg := tr.observe(data); msg != "" {
				if tr.lastSig == "frame-malformed" {
					p.bad("C08:session-datagram-does-not-open-under-an-independent-implementation", "%s datagram #%d: %s", who, tr.n, msg)
				}
				p.bad("C09:"+tr.lastSig, "%s datagram #%d: %s", who, tr.n, msg)
			}
		}
	}
	vrt.Daemons(func() {
		SystemTimedSched = NewTimedSched(1)
		var err error
		p.listener, err = ServeConn(bcL, sds, sps, p.lsock)
		if err != nil {
			panic(err)
		}
		p.client, err = NewConn3(vfConv, p.laddr, bcC, cfg.DS, cfg.PS, p.csock)
		if err != nil {
			panic(err)
		}
	})
	if cfg.EncBack > 0 && p.client.fecEncoder != nil {
		enc := p.client.fecEncoder
		enc.next = enc.paws - uint32(cfg.EncBack*enc.shardSize)
	}
	p.tune(p.client)
	return p
}

func (p *vfPair) tune(s *UDPSession) {
	cfg := p.cfg
	if cfg.Mtu != 0 {
		if !s.SetMtu(cfg.Mtu) {
			p.bad("setup", "SetMtu(%d) refused", cfg.Mtu)
		}
	}
	if cfg.SndWnd != 0 {
		s.SetWindowSize(cfg.SndWnd, cfg.RcvWnd)
	}
	s.SetNoDelay(cfg.NoDelay[0], cfg.NoDelay[1], cfg.NoDelay[2], cfg.NoDelay[3])
	s.SetStreamMode(cfg.Stream)
	s.SetWriteDelay(cfg.WriteDelay)
	s.SetACKNoDelay(cfg.AckNoDelay)
	if cfg.Dup > 0 {
		s.SetDUP(cfg.Dup)
	}
}

// writer writes the given sizes and returns the accepted bytes.
func (p *vfPair) writer(s *UDPSession, end int, sizes []int, accepted *[]byte) {
	off := 0
	for i, n := range sizes {
		if end == 0 && p.cfg.GapAfter > 0 && i == p.cfg.GapAfter {
			vrt.Sleep(time.Duration(p.cfg.GapMs) * time.Millisecond)
		}
		b := vfPayload(end, n, off)
		off += n
		var w int
		var err error
		if p.cfg.Stream && (i+end)%2 == 1 {
			// vector write: the same bytes as three uneven pieces and an empty one (stream mode: boundaries do not matter)
			k1, k2 := n/3, n-n/4
			w, err = s.WriteBuffers([][]byte{b[:k1], {}, b[k1:k2], b[k2:]})
		} else {
			w, err = s.Write(b)
		}
		if err != nil {
			p.bad("C01:write-error", "Write of %d bytes failed: %v", n, err)
			return
		}
		if w != n {
			p.bad("C01:short-write", "Write of %d bytes returned %d", n, w)
			return
		}
		*accepted = append(*accepted, b...)
	}
}

// writer2 continues a write sequence at index from (payload offsets stay consistent).
func (p *vfPair) writer2(s *UDPSession, end int, sizes []int, from int, accepted *[]byte) {
	off := 0
	for i, n := range sizes {
		if i >= from {
			b := vfPayload(end, n, off)
			w, err := s.Write(b)
			if err != nil || w != n {
				p.bad("C01:write-error", "Write of %d bytes returned %d, %v", n, w, err)
				return
			}
			*accepted = append(*accepted, b...)
		}
		off += n
	}
}

// noteShrink records which FEC groups contain packets produced under the old MTU (white-box read of the
// client's encoder position and transmit pipeline at the moment SetMtu returns).
func (p *vfPair) noteShrink() {
	p.shrinkAt = p.cIdx
	enc := p.client.fecEncoder
	if enc == nil {
		return
	}
	if p.openGrp == nil {
		p.openGrp = map[uint32]bool{}
	}
	size, d := uint32(enc.shardSize), uint32(enc.dataShards)
	pos := enc.next
	if enc.shardCount > 0 {
		p.openGrp[pos/size] = true
	}
	for q := p.client.chPostProcessing.Len(); q > 0; q-- { // (a dequeued packet is encoded before the next scheduling point)
		p.openGrp[pos/size] = true
		if pos%size == d-1 {
			pos = (pos + size - d + 1) % enc.paws
		} else {
			pos++
		}
	}
}

// reader reads until want bytes have arrived, checking the prefix property after every Read.
// chunks: in message mode with a large enough buffer, the expected message sizes.
func (p *vfPair) reader(s *UDPSession, src int, want int, sizes []int, got *[]byte) {
	rb := p.cfg.ReadBuf
	if rb == 0 {
		rb = 4096
	}
	buf := make([]byte, rb)
	// expected byte stream is a pure function of the sizes: the reader can check without sharing state
	var exp []byte
	off := 0
	for _, n := range sizes {
		exp = append(exp, vfPayload(src, n, off)...)
		off += n
	}
	// message boundaries (non-stream mode): each Write is split into <= mss messages
	var bounds []int
	mss := int(s.kcp.mss)
	for _, n := range sizes {
		for n > 0 {
			c := min(n, mss)
			bounds = append(bounds, c)
			n -= c
		}
	}
	bi, within := 0, 0
	for len(*got) < want {
		n, err := s.Read(buf)
		if err != nil {
			p.bad("C01:read-error", "Read failed after %d of %d bytes: %v", len(*got), want, err)
			return
		}
		if n == 0 {
			p.bad("C01:empty-read", "Read returned 0 bytes without error")
			return
		}
		*got = append(*got, buf[:n]...)
		g := *got
		if len(g) > len(exp) || !bytes.Equal(g[len(g)-n:], exp[len(g)-n:len(g)]) {
			p.bad("C01:stream-not-a-prefix", "after a Read of %d bytes the %d bytes read so far are not a prefix of what the peer wrote (first difference at %d; byte read %#x)",
				n, len(g), vfFirstDiff(g, exp), g[min(vfFirstDiff(g, exp), len(g)-1)])
			return
		}
		if !p.cfg.Stream {
			// a Read never returns bytes of two messages
			if bi >= len(bounds) || within+n > bounds[bi] {
				p.bad("C01:message-boundary-lost", "Read returned %d bytes crossing the boundary of message #%d (%d bytes, %d already read)", n, bi, bounds[min(bi, len(bounds)-1)], within)
				return
			}
			within += n
			if within == bounds[bi] {
				bi, within = bi+1, 0
			} else if rb >= bounds[bi] {
				p.bad("C01:message-split", "Read with a %d-byte buffer returned only %d bytes of the %d-byte message #%d", rb, n, bounds[bi], bi)
				return
			}
		}
	}
}

func vfSum(a []int) int {
	t := 0
	for _, x := range a {
		t += x
	}
	return t
}

// traffic runs the standard transfer: client writes, accepted session reads (and back).
// It returns when both directions are complete (or a violation was recorded).
func (p *vfPair) traffic() {
	var wg vrt.WaitGroup
	var cw, sw, cg, sg []byte
	cfg := p.cfg
	wg.Add(2)
	vrt.Go("app-client-writer", func() {
		defer wg.Done()
		p.writer(p.client, 0, cfg.Writes, &cw)
	})
	vrt.Go("app-server", func() {
		defer wg.Done()
		s, err := p.listener.AcceptKCP()
		if err != nil {
			p.bad("C11:accept-error", "Accept failed: %v", err)
			return
		}
		p.mu.Lock()
		p.server = s
		p.mu.Unlock()
		p.tune(s)
		var w2 vrt.WaitGroup
		if len(cfg.WritesBack) > 0 {
			w2.Add(1)
			vrt.Go("app-server-writer", func() {
				defer w2.Done()
				p.writer(s, 1, cfg.WritesBack, &sw)
			})
		}
		p.reader(s, 0, vfSum(cfg.Writes), cfg.Writes, &sg)
		w2.Wait()
	})
	if len(cfg.WritesBack) > 0 {
		wg.Add(1)
		vrt.Go("app-client-reader", func() {
			defer wg.Done()
			p.reader(p.client, 1, vfSum(cfg.WritesBack), cfg.WritesBack, &cg)
		})
	}
	wg.Wait()
}

// drainBacklog waits (virtual time) until both senders' backlog is zero.
func (p *vfPair) drainBacklog() {
	for i := 0; i < 400; i++ {
		busy := false
		for _, s := range []*UDPSession{p.client, p.server} {
			if s == nil {
				continue
			}
			s.mu.Lock()
			if s.kcp.WaitSnd() > 0 {
				busy = true
			}
			s.mu.Unlock()
		}
		if !busy {
			return
		}
		vrt.Sleep(50 * time.Millisecond)
	}
	p.bad("C02:backlog-not-drained", "sender backlog still non-zero 20s (virtual) after the reader had everything")
}

// teardown closes everything and checks that nothing is left behind (C15).
func (p *vfPair) teardown() {
	if p.client != nil {
		p.client.Close()
	}
	if p.server != nil {
		p.server.Close()
	}
	p.listener.Close()
	p.csock.Close()
	p.lsock.Close()
	vrt.Idle(2 * time.Second)
	// sessions the listener created but nobody ever accepted: nobody can close them (known finding, see
	// known_findings.json); the harness closes them itself and looks again, so that any OTHER leak is
	// still reported under its own signature
	leakedBacklog := 0
	for p.listener.chAccepts.Len() > 0 {
		var s *UDPSession
		if vrt.Select(true, p.listener.chAccepts.RecvCase(&s, nil)) != 0 || s == nil {
			break
		}
		if !s.isClosed() {
			leakedBacklog++
			s.Close()
		}
	}
	if leakedBacklog > 0 {
		vrt.Idle(2 * time.Second)
	}
	if n := vrt.ArmedTimers(); n > 0 {
		p.bad("C15:scheduled-callback-left-after-close", "%d timer(s) still armed 2s (virtual) after sessions, listener and sockets were closed: a scheduled callback keeps re-arming", n)
	}
	SystemTimedSched.Close()
	vrt.Idle(2 * time.Second)
	var left []string
	for _, th := range vrt.Threads() {
		if th.Daemon && th.State != "done" {
			left = append(left, fmt.Sprintf("%s(%s %s)", th.Name, th.State, th.Blocked))
		}
	}
	if len(left) > 0 {
		p.bad("C15:goroutine-left-after-close", "library goroutines still alive after Close of sessions, listener, sockets and scheduler: %v", left)
	}
	if leakedBacklog > 0 {
		p.bad("C15:unaccepted-session-leaked-at-listener-close", "%d session(s) were created by the listener and were still in its accept backlog when it was closed: "+
			"nothing closes them, so their update callback re-arms forever and their postProcess goroutine never exits", leakedBacklog)
	}
	if msg := vrt.PoolVerify(); msg != "" {
		p.bad("C15:"+firstWords(msg, 5), "%s", msg)
	}
}

// vfPairRun wraps a whole pair scenario as an explorer run function. body runs in the main thread
// after setup; it should call p.traffic() etc.
func vfPairRun(cfg vfPairCfg, bound int, body func(p *vfPair)) explore.RunFunc {
	return func(e *explore.Exec) explore.Verdict {
		var p *vfPair
		hz := cfg.HorizonS
		if hz == 0 {
			hz = 120
		}
		out := hx.RunVrt(e, vrt.Config{PreemptCost: cfg.Preempt, SwitchCost: cfg.Switch, SelectCost: cfg.Select, TimerEarlyCost: -1,
			Horizon: time.Duration(hz) * time.Second, MaxSteps: 3000000, UnlockPoints: cfg.UnlockPoints}, func() {
			p = vfPairSetup(cfg)
			body(p)
		})
		v := explore.Verdict{}
		if out.Status == vrt.Pruned {
			v.Pruned = true
			return v
		}
		owner := "C01:"
		if len(cfg.Owners) > 0 {
			owner = cfg.Owners[0]
		}
		var fs strings.Builder
		if p != nil {
			for i, f := range p.fates {
				if i >= cfg.K {
					break
				}
				fs.WriteByte("-xdrl"[f])
			}
		}
		v.Outcome = fmt.Sprintf("%s fates=%s", out.Status, fs.String())
		v.StateHash = explore.HashString(fmt.Sprintf("%s|%d|%d", v.Outcome, out.Steps, out.Now))
		v.NonTriv = e.Cost() > 0 || len(e.Choices()) > 0
		switch {
		case out.Status == vrt.Panicked:
			v.Violation, v.Signature = out.Fail+"\n"+out.Stack, owner+"panic:"+vfPanicSite(out.Stack)
			if p != nil && p.shrunk {
				v.Signature += ":after-mtu-shrink-with-data-queued"
			}
		case out.Status == vrt.Failed:
			if p != nil && p.owned("C14:") && strings.HasPrefix(out.Fail, "pool:") {
				v.Violation, v.Signature = out.Fail, "C14:pooled-buffer-with-two-owners:"+firstWords(out.Fail, 5)
			} else if p == nil || p.owned("C15:") || strings.HasPrefix(out.Fail, "pool:") == false {
				v.Violation, v.Signature = out.Fail, "C15:"+firstWords(out.Fail, 5)
				if !strings.HasPrefix(out.Fail, "pool:") {
					v.Signature = owner + "fail:" + firstWords(out.Fail, 5)
				}
			}
		case p != nil && p.fail != "":
			v.Violation, v.Signature = p.fail, p.sig
		case out.Status == vrt.Quiescent || out.Status == vrt.StepCap:
			if p == nil || p.owned("C02:") {
				var blocked []string
				for _, th := range out.Threads {
					if !th.Daemon && th.State != "done" {
						blocked = append(blocked, fmt.Sprintf("%s(%s)", th.Name, th.Blocked))
					}
				}
				v.Violation = fmt.Sprintf("the transfer did not complete within %ds of virtual time (%s); application threads still blocked: %v", hz, out.Status, blocked)
				v.Signature = "C02:session-transfer-not-completed"
			}
		}
		if v.Violation != "" {
			v.Detail = fmt.Sprintf("config %+v\nfates %v", cfg, p.fatesOrNil())
		}
		return v
	}
}

func (p *vfPair) fatesOrNil() []int {
	if p == nil {
		return nil
	}
	return p.fates
}
