//go:build verif

package kcp

import (
	"fmt"
	"net"
	"time"

	"verif/hx"
	"verif/vrt"
	"verif/wire"
)

// C14: concurrent use of sessions and listeners is free of data races.
//
// HB-race mode: the worker is built with -race; the scheduler's own hand-offs are hidden from
// ThreadSanitizer and the shims announce exactly the happens-before edges the program's synchronisation
// creates, so every explored schedule is also a vector-clock race check of that schedule. One execution
// runs every supported public method of UDPSession and Listener twice, each call on its own thread, against
// live bidirectional traffic and a second session on the same listener (shared pool, entropy, counters).
// A race between any two of these calls is reported on ANY schedule in which both accesses occur, so the
// default schedule already decides all method pairs; further schedules (every single deviation) add
// control-flow coverage.

type vfMethod struct {
	name string
	call func(p *vfPair, s *UDPSession, l *Listener, k int)
}

func vfSessionMethods() []vfMethod {
	nop := func(string, ...any) {}
	return []vfMethod{
		{"Read", func(p *vfPair, s *UDPSession, l *Listener, k int) {
			s.SetReadDeadline(vrt.Now().Add(30 * time.Millisecond))
			s.Read(make([]byte, 64))
		}},
		{"Read/small-buffer", func(p *vfPair, s *UDPSession, l *Listener, k int) {
			// buffers smaller than the chunks the core delivers: the carried-over tail (bufptr) is shared between readers;
			// the thread ends right after its last Read, so nothing it does later orders that Read's accesses
			for i := 0; i < 3; i++ {
				s.SetReadDeadline(vrt.Now().Add(30 * time.Millisecond))
				if _, err := s.Read(make([]byte, 7)); err != nil {
					return
				}
			}
		}},
		{"Write", func(p *vfPair, s *UDPSession, l *Listener, k int) {
			s.SetWriteDeadline(vrt.Now().Add(30 * time.Millisecond))
			s.Write([]byte("method-write"))
		}},
		{"WriteBuffers", func(p *vfPair, s *UDPSession, l *Listener, k int) {
			s.WriteBuffers([][]byte{[]byte("a"), []byte("bc")})
		}},
		{"SetDeadline", func(p *vfPair, s *UDPSession, l *Listener, k int) { s.SetDeadline(vrt.Now().Add(time.Second)) }},
		{"SetReadDeadline", func(p *vfPair, s *UDPSession, l *Listener, k int) { s.SetReadDeadline(vrt.Now().Add(time.Second)) }},
		{"SetWriteDeadline", func(p *vfPair, s *UDPSession, l *Listener, k int) { s.SetWriteDeadline(vrt.Now().Add(time.Second)) }},
		{"SetWindowSize", func(p *vfPair, s *UDPSession, l *Listener, k int) { s.SetWindowSize(64+k, 64+k) }},
		{"SetMtu", func(p *vfPair, s *UDPSession, l *Listener, k int) { s.SetMtu(1500 - k) }},
		{"SetNoDelay", func(p *vfPair, s *UDPSession, l *Listener, k int) { s.SetNoDelay(1, 10+10*k, 2, 1) }},
		{"SetACKNoDelay", func(p *vfPair, s *UDPSession, l *Listener, k int) { s.SetACKNoDelay(k == 0) }},
		{"SetWriteDelay", func(p *vfPair, s *UDPSession, l *Listener, k int) { s.SetWriteDelay(k == 0) }},
		{"SetRateLimit", func(p *vfPair, s *UDPSession, l *Listener, k int) { s.SetRateLimit(0) }},
		{"SetLogger", func(p *vfPair, s *UDPSession, l *Listener, k int) { s.SetLogger(IKCP_LOG_ALL, nop) }},
		{"Control", func(p *vfPair, s *UDPSession, l *Listener, k int) {
			s.Control(func(net.PacketConn) error { return nil })
		}},
		{"SetDSCP", func(p *vfPair, s *UDPSession, l *Listener, k int) { s.SetDSCP(46) }},
		{"SetReadBuffer", func(p *vfPair, s *UDPSession, l *Listener, k int) { s.SetReadBuffer(65536) }},
		{"SetWriteBuffer", func(p *vfPair, s *UDPSession, l *Listener, k int) { s.SetWriteBuffer(65536) }},
		{"SetOOBHandler", func(p *vfPair, s *UDPSession, l *Listener, k int) { s.SetOOBHandler(func([]byte) {}) }},
		{"SendOOB", func(p *vfPair, s *UDPSession, l *Listener, k int) { s.SendOOB([]byte("oob")) }},
		{"GetOOBMaxSize", func(p *vfPair, s *UDPSession, l *Listener, k int) { s.GetOOBMaxSize() }},
		{"GetConv", func(p *vfPair, s *UDPSession, l *Listener, k int) { s.GetConv() }},
		{"GetRTO", func(p *vfPair, s *UDPSession, l *Listener, k int) { s.GetRTO() }},
		{"GetSRTT", func(p *vfPair, s *UDPSession, l *Listener, k int) { s.GetSRTT() }},
		{"GetSRTTVar", func(p *vfPair, s *UDPSession, l *Listener, k int) { s.GetSRTTVar() }},
		{"LocalAddr", func(p *vfPair, s *UDPSession, l *Listener, k int) { s.LocalAddr() }},
		{"RemoteAddr", func(p *vfPair, s *UDPSession, l *Listener, k int) { s.RemoteAddr() }},
	}
}

func vfListenerMethods() []vfMethod {
	return []vfMethod{
		{"Listener.Accept", func(p *vfPair, s *UDPSession, l *Listener, k int) {
			l.SetReadDeadline(vrt.Now().Add(20 * time.Millisecond))
			if c, err := l.AcceptKCP(); err == nil {
				c.Close()
			}
		}},
		{"Listener.SetDeadline", func(p *vfPair, s *UDPSession, l *Listener, k int) { l.SetDeadline(vrt.Now().Add(time.Second)) }},
		{"Listener.SetReadDeadline", func(p *vfPair, s *UDPSession, l *Listener, k int) { l.SetReadDeadline(vrt.Now().Add(time.Second)) }},
		{"Listener.SetWriteDeadline", func(p *vfPair, s *UDPSession, l *Listener, k int) { l.SetWriteDeadline(vrt.Now().Add(time.Second)) }},
		{"Listener.Addr", func(p *vfPair, s *UDPSession, l *Listener, k int) { l.Addr() }},
		{"Listener.Control", func(p *vfPair, s *UDPSession, l *Listener, k int) {
			l.Control(func(net.PacketConn) error { return nil })
		}},
		{"Listener.SetReadBuffer", func(p *vfPair, s *UDPSession, l *Listener, k int) { l.SetReadBuffer(65536) }},
		{"Listener.SetWriteBuffer", func(p *vfPair, s *UDPSession, l *Listener, k int) { l.SetWriteBuffer(65536) }},
		{"Listener.SetDSCP", func(p *vfPair, s *UDPSession, l *Listener, k int) { l.SetDSCP(46) }},
	}
}

func vfC14(c *hx.Ctx) {
	c.Rule("HB-race mode (ThreadSanitizer on the happens-before relation of each explored schedule): every supported public method of UDPSession (26, Read also with buffers smaller than a chunk) and Listener (9) is called twice, each call on its own thread, " +
		"on the dialled and on the accepted session, against live bidirectional traffic and a second client on the same listener; cipher class {none, AES-CFB, AEAD, pure-Go CFB with 16- and 8-byte blocks, salsa20} x FEC {off, on} x {no Close, Close of client / accepted session / listener at chosen instants}; " +
		"default schedule plus every single scheduling deviation. Non-trivial = an execution with a deviation or a Close.")
	c.Assume("ThreadSanitizer keeps four shadow cells per 8-byte word: races on byte-granular buffers touched many times (cipher feedback buffers) can be missed; those are decided by interleaving exploration in C08")
	c.Assume("deprecated SetStreamMode / SetDUP are excluded, as the property says")
	c.ByUnit = true
	c.AlwaysBound0 = true
	// the process-wide entropy source: its AES state is written by assembly, which ThreadSanitizer does not see, so the
	// generator is checked by interleaving exploration with scheduling points after every Unlock instead
	vfEntropyConcurrent(c, "C14:unsynchronised-generator-state:concurrent-draws-repeat")
	// several readers with buffers smaller than a message share the carried-over tail; a tiny scenario, explored with an
	// extra scheduling point after every Unlock, so that every single deviation is covered (accesses that one schedule
	// happens to order through an unrelated atomic are concurrent in another)
	for _, stream := range []bool{true, false} {
		cf := vfPairCfg{SDS: -1, Stream: stream, NoDelay: [4]int{1, 10, 2, 1}, Writes: []int{40, 33}, ReadBuf: 4096, Pool: vrt.PoolPlain, Preempt: 1, Switch: 1, Select: 1,
			Owners: []string{"C14:"}, HorizonS: 20, UnlockPoints: true}
		body := func(p *vfPair) {
			var cw []byte
			p.writer(p.client, 0, cf.Writes, &cw)
			s, err := p.listener.AcceptKCP()
			if err != nil {
				return
			}
			p.mu.Lock()
			p.server = s
			p.mu.Unlock()
			s.SetReadDeadline(vrt.Now().Add(50 * time.Millisecond))
			var wg vrt.WaitGroup
			for i := 0; i < 3; i++ {
				wg.Add(1)
				vrt.Go(fmt.Sprintf("small-reader-%d", i), func() {
					defer wg.Done()
					for j := 0; j < 4; j++ {
						if _, err := s.Read(make([]byte, 7)); err != nil {
							return
						}
					}
				})
			}
			wg.Wait()
			p.teardown()
		}
		c.UnitBudget = 15 * time.Second
		c.Explore(fmt.Sprintf("small-buffer-readers/stream=%v", stream), vfPairParams(cf, 1), 1, vfPairRun(cf, 1, body))
	}
	// out-of-band sends against Close of the same session, with the peer drawing from the same buffer pool: a buffer that two
	// goroutines own at once is a race on its bytes whether or not this schedule lets both touch it, so the pool's ownership
	// tracking is an oracle here next to ThreadSanitizer; tiny scenario, every single deviation
	for _, who := range []string{"client", "server"} {
		who := who
		cf := vfPairCfg{DS: 2, PS: 1, SDS: -1, Stream: true, NoDelay: [4]int{1, 10, 2, 1}, Writes: []int{40}, ReadBuf: 4096, Pool: vrt.PoolEager, Preempt: 1, Switch: 1, Select: 1,
			Owners: []string{"C14:"}, HorizonS: 20, UnlockPoints: true}
		body := func(p *vfPair) {
			var cw []byte
			p.writer(p.client, 0, cf.Writes, &cw)
			s, err := p.listener.AcceptKCP()
			if err != nil {
				return
			}
			p.mu.Lock()
			p.server = s
			p.mu.Unlock()
			s.SetReadDeadline(vrt.Now().Add(50 * time.Millisecond))
			s.Read(make([]byte, 64))
			closing, other := p.client, s
			if who == "server" {
				closing, other = s, p.client
			}
			var wg vrt.WaitGroup
			for i := 0; i < 2; i++ {
				wg.Add(1)
				vrt.Go(fmt.Sprintf("oob-%d", i), func() {
					defer wg.Done()
					closing.SendOOB(vfPayload(8, 30+i, i))
				})
			}
			wg.Add(2)
			vrt.Go("closer", func() { defer wg.Done(); closing.Close() })
			vrt.Go("peer-oob", func() {
				defer wg.Done()
				for i := 0; i < 3; i++ {
					other.SendOOB(vfPayload(9, 20+i, i))
					vrt.Sleep(time.Millisecond)
				}
			})
			wg.Wait()
			vrt.Idle(30 * time.Millisecond)
			p.teardown()
		}
		c.UnitBudget = 15 * time.Second
		c.Explore("sendoob-against-close/closing="+who, vfPairParams(cf, 1), 1, vfPairRun(cf, 1, body))
	}
	bound := hx.Pick(c, 1, 2)
	type class struct {
		ciph   string
		ds, ps int
	}
	// pure-Go block ciphers (16- and 8-byte blocks): their feedback buffers are visible to ThreadSanitizer, AES assembly is not.
	// Whole units are dealt to the shards round-robin, so classes four apart share a shard: the order spreads the expensive
	// ones (xor and 3des key schedules, the pure-Go ciphers) evenly over the four columns.
	classes := []class{{"aes-128", 0, 0}, {"", 0, 0}, {"", 2, 1}, {"none", 0, 0},
		{"aes-gcm", 0, 0}, {"aes-gcm", 1, 1}, {"xtea", 0, 0}, {"aes-128", 3, 2},
		{"salsa20", 0, 0}, {"tea", 0, 0}, {"twofish", 0, 0}, {"blowfish", 2, 1},
		{"xor", 0, 0}, {"3des", 0, 0}, {"cast5", 2, 1}, {"sm4", 0, 0}}
	closes := []string{"none", "client", "server", "listener"}
	// this shard's units share what is left of the budget, each taking an equal part of what remains when it starts; in the
	// quick tier an execution cap that a normal machine reaches well before its share is used up makes the work done
	// independent of the machine's speed (the deadline is only the safety net)
	mine := 0
	for k := 1; k <= len(classes)*len(closes); k++ {
		if c.Mine(k) {
			mine++
		}
	}
	c.MaxExecs = hx.Pick(c, 600, 0)
	for _, cl := range classes {
		for _, closeWho := range closes {
			closeWho := closeWho
			cf := vfPairCfg{Cipher: cl.ciph, DS: cl.ds, PS: cl.ps, SDS: -1, Stream: true, NoDelay: [4]int{1, 10, 2, 1}, Writes: []int{1200, 300, 1200}, WritesBack: []int{700, 50},
				ReadBuf: 4096, Pool: vrt.PoolPlain, Preempt: 1, Switch: 1, Select: 1, Owners: []string{"C14:"}, HorizonS: 20}
			body := func(p *vfPair) {
				vrt.Go("traffic", func() { p.traffic() })
				// a second client on the same listener: shared pool, entropy source, counters, listener tables
				var second *UDPSession
				vrt.Daemons(func() {
					sock2 := p.net.socket(vfUDP(3, 40001))
					bc, _ := vfBlockCrypt(cf.Cipher)
					second, _ = NewConn3(vfConv+1, p.laddr, bc, cf.DS, cf.PS, sock2)
				})
				// rejected input on every receive path at the same time (dialled session, second dialled session, listener with and
				// without a session): the error branches update process-wide counters from different goroutines
				sealer := vfNewSealer(cf.Cipher)
				garbage := func(conv uint32) [][]byte {
					var out [][]byte
					wrap := func(body []byte) []byte {
						if cf.DS > 0 {
							b := make([]byte, fecHeaderSizePlus2+len(body))
							b[0], b[1], b[2], b[3] = 0x50, 0x46, 0x0f, 0x00
							b[4] = typeData
							b[6], b[7] = byte(len(body)+2), byte((len(body)+2)>>8)
							copy(b[fecHeaderSizePlus2:], body)
							return b
						}
						return body
					}
					foreign := wire.EncodeSegment(wire.Seg{Conv: conv + 77, Cmd: wire.CmdPush, Wnd: 32, Sn: 3, Data: []byte("foreign")}, -1)
					liar := wire.EncodeSegment(wire.Seg{Conv: conv, Cmd: wire.CmdPush, Wnd: 32, Sn: 40, Data: []byte("short")}, 400) // declares more data than it carries
					badcmd := wire.EncodeSegment(wire.Seg{Conv: conv, Cmd: 99, Wnd: 32, Sn: 41}, -1)
					for _, b := range [][]byte{foreign, liar, badcmd} {
						out = append(out, sealer.seal(wrap(b)))
					}
					bad := sealer.seal(wrap(foreign))
					bad[len(bad)-1] ^= 0x40 // fails the integrity check when a cipher is configured
					out = append(out, bad, []byte{1, 2, 3})
					return out
				}
				vrt.Go("rejected-input", func() {
					vrt.Sleep(5 * time.Millisecond)
					for i := 0; i < 2; i++ {
						for _, d := range garbage(vfConv) {
							p.csock.inject(p.laddr, d)
							p.lsock.inject(p.caddr, d)
						}
						for _, d := range garbage(vfConv + 1) {
							p.net.socks[vfUDP(3, 40001).String()].inject(p.laddr, d)
							p.lsock.inject(vfUDP(3, 40001), d)
							p.lsock.inject(vfUDP(9, 9999), d)
						}
						vrt.Sleep(3 * time.Millisecond)
					}
				})
				vrt.Go("second-client", func() {
					second.Write([]byte("hello from the second client"))
					second.SetReadDeadline(vrt.Now().Add(40 * time.Millisecond))
					second.Read(make([]byte, 16))
				})
				vrt.Sleep(6 * time.Millisecond) // traffic under way, session accepted
				p.mu.Lock()
				srv := p.server
				p.mu.Unlock()
				var wg vrt.WaitGroup
				start := func(m vfMethod, s *UDPSession, k int) {
					wg.Add(1)
					vrt.Go(m.name, func() {
						defer wg.Done()
						m.call(p, s, p.listener, k)
					})
				}
				for k := 0; k < 2; k++ {
					for _, m := range vfSessionMethods() {
						start(m, p.client, k)
						if srv != nil {
							start(m, srv, k)
						}
					}
					for _, m := range vfListenerMethods() {
						start(m, p.client, k)
					}
				}
				if closeWho != "none" {
					at := []time.Duration{0, 2 * time.Millisecond, 11 * time.Millisecond}[vrt.Choose(3, "close instant")]
					wg.Add(1)
					vrt.Go("closer", func() {
						defer wg.Done()
						vrt.Sleep(at)
						switch closeWho {
						case "client":
							p.client.Close()
						case "server":
							if srv != nil {
								srv.Close()
							}
						case "listener":
							p.listener.Close()
						}
					})
				}
				wg.Wait()
				vrt.Idle(100 * time.Millisecond)
				second.Close()
				p.teardown()
			}
			if c.Mine(1) {
				c.UnitBudget = max(time.Until(c.Deadline), 0) / time.Duration(max(mine, 1))
				mine--
			}
			pr := vfPairParams(cf, bound)
			pr["close"] = closeWho
			pr["methods"] = len(vfSessionMethods()) + len(vfListenerMethods())
			c.Explore(fmt.Sprintf("methods/cipher=%s/fec=%d,%d/close=%s", cl.ciph, cl.ds, cl.ps, closeWho), pr, bound, vfPairRun(cf, bound, body))
		}
	}
}

func init() { hx.Register("C14", vfC14) }
