//go:build verif

package kcp

import (
	"bytes"
	"container/heap"
	"fmt"
	"time"

	"verif/vrt"
	"verif/wire"
)

// Core pair: two raw KCP state machines, a datagram bag and the virtual clock — a discrete-event
// simulation in which every call goes to the real methods (Send, Recv, Input, flush, Update, Check).
// The environment (fate of each of the first K datagrams, reader pauses, …) is chosen by the explorer.
// Invariants (C01 prefix, C04 window discipline, C10 core MTU, C18 RTO bounds) are evaluated after
// every call; C02 liveness at the end.

// fates of a datagram
const (
	vfDeliver = iota
	vfDrop
	vfDup
	vfReorder // delayed past the next datagrams
	vfLate    // delayed past the retransmission timeout
	vfRaceRto // arrives at the instant the receiving end's earliest retransmission timer expires (just before it is serviced)
	vfFecLate // lost on the wire and rebuilt from parity 35 ms later: input with the packet type "recovered by FEC", after the datagrams that followed it
)

var vfFateNames = []string{"deliver", "drop", "dup", "reorder", "late", "race-rto", "fec-recovered-late"}

type vfSimCfg struct {
	Mode       string // "session": flush after Send / on the interval flush returns / from Input; "update": Update at Check()
	Stream     bool
	SndWnd     [2]int // per end: A=0 (writer), B=1 (reader)
	RcvWnd     [2]int
	Mtu        int
	NoDelay    [4]int // nodelay, interval, resend, nc
	AckNoDelay bool
	WriteDelay bool
	Delay      uint32   // one-way delay, ms
	Writes     [2][]int // sizes of the successive application writes of each end
	K          int      // number of datagrams (both directions, emission order) whose fate is enumerated
	Fates      []int    // fate alphabet for those
	Sn0        uint32   // initial sequence number (white-box: snd_una=snd_nxt=Sn0 at the sender, rcv_nxt=Sn0 at its peer)
	Clk0       uint32   // clock offset: currentMs() starts at Clk0
	HorizonMs  uint32   // liveness horizon
	// reader pause (C03): end B stops reading after PauseAfter segments have been read, for PauseMs
	PauseAfter          int    // -1 = never
	PauseBoth           bool   // end A's reader pauses in the same way (both directions reach a zero window)
	OutageAfterResumeMs uint32 // every datagram emitted during this long after the reader resumes is lost
	NeverReadA          bool   // end A's application never reads what end B sends (A's window stays closed); only A->B must complete
	PauseMs             uint32
	// drop every datagram that carries no PUSH while the reader is paused and for PauseLoss ms afterwards
	CtrlDropMask    uint32      // bit i set: the i-th control-only (ACK/WASK/WINS) datagram emitted after the pause began is dropped
	CtrlDropN       int         // how many control-only datagrams are subject to the mask
	Outage          [2]uint32   // [from, to): every datagram emitted in this interval (ms since start) is dropped
	Outages         [][2]uint32 // when set, the outage is an environment choice among these
	Trace           bool
	SegmentLikePayload bool     // the written bytes carry well-formed segment headers of the same conversation (C01: payloads are never parsed)
	CleanPath       bool        // C18: assert that every data sn is transmitted exactly once
	BatchReader     bool        // the applications run once per instant, after ALL datagrams that arrive at that instant were input (a receive loop that reads a batch before the reader goroutine gets to run)
	FateFrom        int         // fates are enumerated for datagrams [FateFrom, FateFrom+K): exploration from a warmed-up connection
	FixedFates      []int       // replay these fates instead of choosing (differential runs)
	WriteGapMs      uint32      // the i-th write of end A becomes available at i*WriteGapMs (application-limited sender)
	WriteGapMsB     uint32      // same for end B
	WriteTimes      [2][]uint32 // explicit availability time of each write (overrides the gaps when set)
	IntervalB       int         // flush interval of end B (0 = same as A)
	OffsetB         uint32      // end B's first update happens at this time (phase offset between the two flush clocks)
	NoWriteDelayB   bool        // session mode: end B flushes right after each write even if WriteDelay is set
	AckNoDelayOnlyA bool        // AckNoDelay applies to end A only
}

type vfEvent struct {
	t    uint32
	seq  int
	kind int // 0 deliver, 1 update, 2 resume reader
	end  int
	data []byte
	fec  bool // the datagram did not arrive off the wire: the session's FEC decoder rebuilt it
}

type vfEvHeap []*vfEvent

func (h vfEvHeap) Len() int { return len(h) }
func (h vfEvHeap) Less(i, j int) bool {
	if h[i].t != h[j].t {
		return h[i].t < h[j].t
	}
	if (h[i].kind == 3) != (h[j].kind == 3) {
		return h[i].kind == 3 // at one instant: the application produces its data first,
	}
	if (h[i].kind == 0) != (h[j].kind == 0) {
		return h[i].kind == 0 // then arrivals are processed, then timers
	}
	return h[i].seq < h[j].seq
}
func (h vfEvHeap) Swap(i, j int) { h[i], h[j] = h[j], h[i] }
func (h *vfEvHeap) Push(x any)   { *h = append(*h, x.(*vfEvent)) }
func (h *vfEvHeap) Pop() any {
	o := *h
	x := o[len(o)-1]
	*h = o[:len(o)-1]
	return x
}

type vfEnd struct {
	id        int
	k         *KCP
	toWrite   [][]byte
	nWritten  int
	written   []byte   // stream mode: bytes accepted
	wmsgs     [][]byte // message mode: messages accepted
	got       []byte
	gmsgs     [][]byte
	seen      map[uint32]int // PUSH sn -> times on the wire
	updAt     int64          // scheduled update time (-1 none)
	freeze    bool           // C04: RTO loss seen with congestion control; nothing new until snd_una moves
	frzUna    uint32
	frzFast   bool // a fast/early retransmission happened since the timeout loss
	segsRead  int
	hasPaused bool
	lastUpd   int64
	paused    bool
	maxRto    uint32
	// C04: the peer's advertised window, tracked independently: the window field of the last segment that arrived off the
	// wire (packets rebuilt by FEC are older than what has been seen since and do not count)
	modelRmt uint32
	// C04: segments sitting in the send buffer that were never transmitted when the current call began (only an ack-only
	// flush admits without transmitting)
	unsentAdmitted map[uint32]bool
}

type vfSim struct {
	cfg      vfSimCfg
	e        [2]*vfEnd
	now      uint32
	q        vfEvHeap
	seq      int
	emitted  int
	ctrlIdx  int
	pausedAt int64
	fail     string
	sig      string
	trace    []string
	fates    []int
	calls    int
	curEnd   *vfEnd
	newSn    []uint32 // never-seen sn emitted during the current call
	retrans  int      // re-emitted sn during the current call
	drained  int64
	steps    int
	wireLog  []string // normalised datagram trace (C12)
	logWire  bool
	owners   []string
	// C10: call SetMtu(mtuVal) on end A after mtuAt calls
	mtuAt       int
	mtuVal      int
	// C01: when > 0, SetMtu(mtuVal) is called on end A right before its write #mtuAtWrite instead (whatever is queued
	// at that moment stays queued)
	mtuAtWrite int
	mtuDone     bool
	mtuAccepted bool
}

func (s *vfSim) bad(sig, format string, args ...any) {
	if len(s.owners) > 0 {
		mine := false
		for _, o := range s.owners {
			if len(sig) >= len(o) && sig[:len(o)] == o {
				mine = true
			}
		}
		if !mine {
			return
		}
	}
	if s.fail == "" {
		s.sig, s.fail = sig, fmt.Sprintf(format, args...)+fmt.Sprintf(" [t=%dms, after %d calls]", s.now, s.calls)
	}
}

func (s *vfSim) tracef(format string, args ...any) {
	if s.cfg.Trace && len(s.trace) < 3000 {
		s.trace = append(s.trace, fmt.Sprintf("t=%-6d ", s.now)+fmt.Sprintf(format, args...))
	}
}

func (s *vfSim) setClock() {
	vrt.SetNow(int64(s.now) * int64(time.Millisecond))
}

func vfPayload(end, n, off int) []byte {
	b := make([]byte, n)
	for i := range b {
		x := off + i
		b[i] = byte(x*7+x/251+end*101) | 1 // never 0 and never the 0xDB poison... low bit set
		if b[i] == 0xDB {
			b[i] = 0xDD
		}
	}
	return b
}

func vfNewSim(cfg vfSimCfg) *vfSim {
	if len(cfg.Outages) > 0 {
		cfg.Outage = cfg.Outages[vrt.Choose(len(cfg.Outages), "outage")]
	}
	s := &vfSim{cfg: cfg, pausedAt: -1, drained: -1}
	refTime = vrt.Epoch0.Add(-time.Duration(cfg.Clk0) * time.Millisecond)
	s.setClock()
	for i := 0; i < 2; i++ {
		en := &vfEnd{id: i, seen: map[uint32]int{}, updAt: -1, lastUpd: -1, modelRmt: IKCP_WND_RCV}
		en.k = NewKCP(0x11223344, func(buf []byte, size int) { s.onOutput(en, buf, size) })
		en.k.WndSize(cfg.SndWnd[i], cfg.RcvWnd[i])
		if cfg.Mtu != 0 && en.k.SetMtu(cfg.Mtu) != 0 {
			s.bad("setup", "SetMtu(%d) refused", cfg.Mtu)
		}
		iv := cfg.NoDelay[1]
		if i == 1 && cfg.IntervalB > 0 {
			iv = cfg.IntervalB
		}
		en.k.NoDelay(cfg.NoDelay[0], iv, cfg.NoDelay[2], cfg.NoDelay[3])
		if cfg.Stream {
			en.k.stream = 1
		}
		off := 0
		for wi, n := range cfg.Writes[i] {
			pl := vfPayload(i, n, off)
			if cfg.SegmentLikePayload && n >= 24+8 {
				// the application's bytes happen to look like a protocol segment of this very conversation: a well-formed PUSH
				// header with a sequence number the reader is still waiting for (payloads are data, never protocol)
				hdr := wire.EncodeSegment(wire.Seg{Conv: 0x11223344, Cmd: wire.CmdPush, Wnd: 32, Sn: cfg.Sn0 + uint32((wi+1)%6), Una: cfg.Sn0, Data: pl[24:]}, -1)
				copy(pl, hdr[:24])
			}
			en.toWrite = append(en.toWrite, pl)
			off += n
		}
		s.e[i] = en
	}
	// white-box initial sequence position (C12): a connection that has already exchanged Sn0 segments
	for i := 0; i < 2; i++ {
		s.e[i].k.snd_una, s.e[i].k.snd_nxt, s.e[i].k.rcv_nxt = cfg.Sn0, cfg.Sn0, cfg.Sn0
	}
	return s
}

func (s *vfSim) push(ev *vfEvent) {
	s.seq++
	ev.seq = s.seq
	heap.Push(&s.q, ev)
}

// onOutput is the core's output callback: invariants at emission, then the datagram's fate.
func (s *vfSim) onOutput(en *vfEnd, buf []byte, size int) {
	k := en.k
	if size <= 0 || size > int(k.mtu) {
		s.bad("C10:core-output-size", "end %d: output callback got size %d with mtu %d", en.id, size, k.mtu)
		return
	}
	data := append([]byte(nil), buf[:size]...)
	segs, err := wire.ParseSegments(data)
	if err != nil {
		s.bad("C09:core-emission-malformed", "end %d emitted a datagram the independent decoder rejects: %v", en.id, err)
		return
	}
	hasPush := false
	for _, sg := range segs {
		if sg.Conv != k.conv {
			s.bad("C09:conv", "emitted conv %x", sg.Conv)
		}
		free := max(int(k.rcv_wnd)-k.rcv_queue.Len(), 0)
		if int(sg.Wnd) > free {
			s.bad("C04:advertised-window-too-large", "end %d advertises wnd=%d but only %d of %d delivery-queue slots are free", en.id, sg.Wnd, free, k.rcv_wnd)
		} else if int(sg.Wnd) != free {
			s.bad("C04:advertised-window-untruthful", "end %d advertises wnd=%d but %d of %d delivery-queue slots are free", en.id, sg.Wnd, free, k.rcv_wnd)
		}
		if sg.Una != k.rcv_nxt {
			s.bad("C09:una", "end %d emitted una=%d with rcv_nxt=%d", en.id, sg.Una, k.rcv_nxt)
		}
		if sg.Cmd == wire.CmdPush {
			hasPush = true
			if len(sg.Data) == 0 || len(sg.Data) > int(k.mss) {
				s.bad("C10:segment-size", "end %d emitted a PUSH of %d bytes, mss %d", en.id, len(sg.Data), k.mss)
			}
			if en.seen[sg.Sn] == 0 {
				s.newSn = append(s.newSn, sg.Sn)
			} else {
				s.retrans++
				if s.cfg.CleanPath {
					s.bad("C18:retransmission-on-clean-path", "end %d transmitted sn=%d a second time on a loss-free, reorder-free path (rto=%d)", en.id, sg.Sn-s.cfg.Sn0, k.rx_rto)
				}
			}
			en.seen[sg.Sn]++
		}
	}
	if s.logWire {
		for _, sg := range segs {
			if sg.Cmd == wire.CmdWask || sg.Cmd == wire.CmdWins {
				// sn and ts of window probes are unspecified (left over from the last ACK written, or zero) and ignored by receivers
				s.wireLog = append(s.wireLog, fmt.Sprintf("%d>%d t=%d %s una=%d wnd=%d", en.id, 1-en.id, s.now, []string{"PUSH", "ACK", "WASK", "WINS"}[sg.Cmd-81], sg.Una-s.cfg.Sn0, sg.Wnd))
				continue
			}
			s.wireLog = append(s.wireLog, fmt.Sprintf("%d>%d t=%d %s sn=%d una=%d wnd=%d ts=%d frg=%d len=%d", en.id, 1-en.id, s.now,
				[]string{"PUSH", "ACK", "WASK", "WINS"}[sg.Cmd-81], sg.Sn-s.cfg.Sn0, sg.Una-s.cfg.Sn0, sg.Wnd, sg.Ts-s.cfg.Clk0, sg.Frg, len(sg.Data)))
		}
	}
	// fate
	idx := s.emitted
	s.emitted++
	fate := vfDeliver
	if s.cfg.FixedFates != nil {
		if idx < len(s.cfg.FixedFates) {
			fate = s.cfg.FixedFates[idx]
		}
	} else if idx >= s.cfg.FateFrom && idx < s.cfg.FateFrom+s.cfg.K && len(s.cfg.Fates) > 1 {
		fate = s.cfg.Fates[vrt.Choose(len(s.cfg.Fates), "fate")]
	}
	if s.cfg.Outage[1] > s.cfg.Outage[0] && s.now >= s.cfg.Outage[0] && s.now < s.cfg.Outage[1] {
		fate = vfDrop
	}
	if !hasPush && s.pausedAt >= 0 && s.ctrlIdx < s.cfg.CtrlDropN {
		// C03: every subset of the first CtrlDropN control-only datagrams after the pause began is lost
		if vrt.Choose(2, "lose control datagram") == 1 {
			fate = vfDrop
		}
		s.ctrlIdx++
	}
	s.fates = append(s.fates, fate)
	s.tracef("end%d emits #%d %v -> %s", en.id, idx, segs, vfFateNames[fate])
	to := 1 - en.id
	d := s.cfg.Delay
	switch fate {
	case vfDeliver:
		s.push(&vfEvent{t: s.now + d, kind: 0, end: to, data: data})
	case vfDrop:
	case vfDup:
		s.push(&vfEvent{t: s.now + d, kind: 0, end: to, data: data})
		s.push(&vfEvent{t: s.now + d + 3, kind: 0, end: to, data: append([]byte(nil), data...)})
	case vfReorder:
		s.push(&vfEvent{t: s.now + d + 35, kind: 0, end: to, data: data})
	case vfFecLate:
		s.push(&vfEvent{t: s.now + d + 35, kind: 0, end: to, data: data, fec: true})
	case vfLate:
		s.push(&vfEvent{t: s.now + d + 450, kind: 0, end: to, data: data})
	case vfRaceRto:
		at := s.now + d
		first := true
		var earliest uint32
		for sg := range s.e[to].k.snd_buf.ForEach {
			if sg.acked == 0 && sg.xmit > 0 {
				if rel := sg.resendts - s.cfg.Clk0; first || int32(rel-earliest) < 0 {
					earliest, first = rel, false
				}
			}
		}
		if !first && int32(earliest-at) > 0 && earliest-at < 70000 {
			at = earliest
		}
		s.push(&vfEvent{t: at, kind: 0, end: to, data: data})
	}
}

type vfSnap struct {
	sndUna, sndNxt, rmtWnd, cwnd uint32
	lost, fast                   uint64
}

func (s *vfSim) pre(en *vfEnd) vfSnap {
	s.curEnd = en
	s.newSn = s.newSn[:0]
	s.retrans = 0
	s.calls++
	k := en.k
	en.unsentAdmitted = nil
	for sg := range k.snd_buf.ForEach {
		if sg.xmit == 0 && sg.acked == 0 {
			if en.unsentAdmitted == nil {
				en.unsentAdmitted = map[uint32]bool{}
			}
			en.unsentAdmitted[sg.sn] = true
		}
	}
	return vfSnap{k.snd_una, k.snd_nxt, k.rmt_wnd, k.cwnd, DefaultSnmp.LostSegs, DefaultSnmp.FastRetransSegs + DefaultSnmp.EarlyRetransSegs}
}

// post evaluates the invariants after a call into end en. isInput: the call was Input (window state
// is updated by the packet before the internal flush, so the post-call values are the ones flush used).
func (s *vfSim) post(en *vfEnd, p vfSnap, isInput bool, what string) {
	k := en.k
	if s.cfg.Trace {
		s.tracef("  after %s end%d: una=%d nxt=%d cwnd=%d->%d ssthresh=%d incr=%d rmt_wnd=%d rto=%d queue=%d new=%v retrans=%d", what, en.id, k.snd_una-s.cfg.Sn0, k.snd_nxt-s.cfg.Sn0,
			p.cwnd, k.cwnd, k.ssthresh, k.incr, k.rmt_wnd, k.rx_rto, k.snd_queue.Len(), s.newSn, s.retrans)
	}
	// --- receive side (C04)
	if k.rcv_queue.Len() > int(k.rcv_wnd) {
		s.bad("C04:delivery-queue-exceeds-window", "end %d holds %d in-order segments, receive window %d (%s)", en.id, k.rcv_queue.Len(), k.rcv_wnd, what)
	}
	if k.rcv_buf.Len() > int(k.rcv_wnd) {
		s.bad("C04:reorder-buffer-exceeds-window", "end %d holds %d out-of-order segments, receive window %d (%s)", en.id, k.rcv_buf.Len(), k.rcv_wnd, what)
	}
	seenSn := map[uint32]bool{}
	for _, sg := range k.rcv_buf.segments {
		if seenSn[sg.sn] {
			s.bad("C04:reorder-buffer-duplicate", "end %d buffers sn=%d twice", en.id, sg.sn-s.cfg.Sn0)
		}
		seenSn[sg.sn] = true
		if d := int32(sg.sn - k.rcv_nxt); d < 0 || d >= int32(k.rcv_wnd) {
			s.bad("C04:reorder-buffer-outside-window", "end %d buffers sn=%d outside [rcv_nxt=%d, +%d)", en.id, sg.sn-s.cfg.Sn0, k.rcv_nxt-s.cfg.Sn0, k.rcv_wnd)
		}
	}
	if len(k.rcv_buf.marks) != len(k.rcv_buf.segments) {
		s.bad("C04:reorder-buffer-marks", "end %d: %d marks for %d buffered segments", en.id, len(k.rcv_buf.marks), len(k.rcv_buf.segments))
	}
	// --- send side (C04)
	if out := k.snd_nxt - k.snd_una; int32(out) < 0 || out > k.snd_wnd {
		s.bad("C04:outstanding-exceeds-send-window", "end %d has %d segments outstanding, send window %d (%s)", en.id, out, k.snd_wnd, what)
	}
	if k.snd_buf.Len() != int(k.snd_nxt-k.snd_una) {
		s.bad("C04:send-buffer-accounting", "end %d: snd_buf has %d entries, snd_nxt-snd_una=%d", en.id, k.snd_buf.Len(), k.snd_nxt-k.snd_una)
	}
	lost := DefaultSnmp.LostSegs - p.lost
	if len(s.newSn) > 0 {
		una, rmt, cw := p.sndUna, p.rmtWnd, p.cwnd
		exact := true
		if isInput {
			una, rmt, cw = k.snd_una, k.rmt_wnd, k.cwnd
			if s.retrans > 0 || lost > 0 {
				// the flush inside Input rewrote cwnd after emitting (and the value it used cannot be observed:
				// congestion avoidance may have grown it by more than one on this very packet): the congestion
				// component is not checked for this call, the two window components still are
				exact = false
			}
		}
		lim := min(k.snd_wnd, rmt)
		if k.nocwnd == 0 && exact {
			lim = min(lim, max(cw, 1))
		}
		for _, sn := range s.newSn {
			if outstanding := sn - una; int32(outstanding) < 0 || outstanding >= lim {
				sig := "C04:new-segment-beyond-effective-window"
				if en.unsentAdmitted[sn] {
					// the segment was moved into the send buffer by an earlier ack-only flush, which checks the window but transmits nothing
					sig += ":admitted-by-an-earlier-ack-only-flush-while-the-window-was-open"
				}
				s.bad(sig, "end %d put never-sent sn=%d on the wire with %d already outstanding; min(snd_wnd=%d, rmt_wnd=%d, cwnd=%d%s) (%s)",
					en.id, sn-s.cfg.Sn0, outstanding, k.snd_wnd, rmt, cw, map[bool]string{true: "", false: " (not applied)"}[exact], what)
			}
		}
		if en.freeze && una == en.frzUna {
			how := "no-fast-retransmit-in-between"
			if en.frzFast {
				how = "cwnd-reinflated-by-a-later-fast-or-early-retransmit"
			}
			s.bad("C04:new-segment-after-timeout-loss:"+how, "end %d admitted new sn=%d after a timeout loss although the oldest outstanding sn=%d is still unacknowledged (nc=0, cwnd=%d, %s) (%s)",
				en.id, s.newSn[0]-s.cfg.Sn0, una-s.cfg.Sn0, cw, how, what)
		}
	}
	if en.freeze && k.snd_una != en.frzUna {
		en.freeze = false
	}
	if en.freeze && DefaultSnmp.FastRetransSegs+DefaultSnmp.EarlyRetransSegs > p.fast {
		en.frzFast = true
	}
	if lost > 0 && k.nocwnd == 0 {
		en.freeze, en.frzUna, en.frzFast = true, k.snd_una, false
	}
	// --- RTO bounds (C18)
	if k.rx_rto < k.rx_minrto || k.rx_rto > IKCP_RTO_MAX {
		s.bad("C18:rto-out-of-bounds", "end %d reports rto=%d, bounds [%d, %d] (%s)", en.id, k.rx_rto, k.rx_minrto, IKCP_RTO_MAX, what)
	}
	if k.rx_rto > en.maxRto {
		en.maxRto = k.rx_rto
	}
}

// app lets the applications make progress: the reader drains, the writer writes while admitted.
func (s *vfSim) app(en *vfEnd) {
	k := en.k
	// reader
	for !en.paused && !(en.id == 0 && s.cfg.NeverReadA) {
		size := k.PeekSize()
		if size < 0 {
			break
		}
		if s.cfg.PauseAfter >= 0 && (en.id == 1 || s.cfg.PauseBoth) && !en.hasPaused && en.segsRead >= s.cfg.PauseAfter {
			en.paused, en.hasPaused = true, true
			if s.pausedAt < 0 {
				s.pausedAt = int64(s.now)
			}
			s.push(&vfEvent{t: s.now + s.cfg.PauseMs, kind: 2, end: en.id})
			s.tracef("reader pauses for %dms", s.cfg.PauseMs)
			break
		}
		buf := make([]byte, size)
		p := s.pre(en)
		n := k.Recv(buf)
		s.post(en, p, false, "Recv")
		if n != size {
			s.bad("C01:recv-size", "Recv returned %d after PeekSize %d", n, size)
			break
		}
		en.segsRead++
		peer := s.e[1-en.id]
		if s.cfg.Stream {
			en.got = append(en.got, buf...)
			if len(en.got) > len(peer.written) || !bytes.Equal(en.got, peer.written[:len(en.got)]) {
				s.bad("C01:stream-not-a-prefix", "end %d has read %d bytes that are not a prefix of the %d bytes its peer wrote (first difference at %d)",
					en.id, len(en.got), len(peer.written), vfFirstDiff(en.got, peer.written))
				return
			}
		} else {
			en.gmsgs = append(en.gmsgs, buf)
			i := len(en.gmsgs) - 1
			if i >= len(peer.wmsgs) || !bytes.Equal(buf, peer.wmsgs[i]) {
				s.bad("C01:messages-not-a-prefix", "end %d read message #%d (%d bytes) that differs from what its peer sent", en.id, i, len(buf))
				return
			}
		}
	}
	// writer
	for len(en.toWrite) > 0 && s.fail == "" {
		if wt := s.cfg.WriteTimes[en.id]; wt != nil {
			if en.nWritten < len(wt) && s.now < wt[en.nWritten] {
				break // not yet produced by the application
			}
		} else if en.id == 0 && s.cfg.WriteGapMs > 0 && s.now < uint32(en.nWritten)*s.cfg.WriteGapMs {
			break // not yet produced by the application
		}
		if en.id == 1 && s.cfg.WriteGapMsB > 0 && s.now < uint32(en.nWritten)*s.cfg.WriteGapMsB {
			break
		}
		if en.id == 0 && s.mtuVal != 0 && !s.mtuDone && s.mtuAtWrite > 0 && en.nWritten == s.mtuAtWrite {
			s.mtuDone = true
			s.mtuAccepted = k.SetMtu(s.mtuVal) == 0
			s.tracef("SetMtu(%d) before write #%d accepted=%v (queued %d, in flight %d)", s.mtuVal, en.nWritten, s.mtuAccepted, k.snd_queue.Len(), k.snd_buf.Len())
		}
		en.nWritten++
		if s.cfg.Mode == "session" {
			if k.WaitSnd() >= int(k.snd_wnd) {
				en.nWritten--
			}
			if k.WaitSnd() >= int(k.snd_wnd) {
				break
			}
			b := en.toWrite[0]
			en.toWrite = en.toWrite[1:]
			p := s.pre(en)
			for len(b) > 0 {
				n := min(len(b), int(k.mss))
				chunk := b[:n]
				b = b[n:]
				if r := k.Send(chunk); r != 0 {
					s.bad("C01:send-refused", "Send of %d bytes returned %d", n, r)
				}
				if s.cfg.Stream {
					en.written = append(en.written, chunk...)
				} else {
					en.wmsgs = append(en.wmsgs, append([]byte(nil), chunk...))
				}
			}
			if k.WaitSnd() >= int(k.snd_wnd) || !s.cfg.WriteDelay || (en.id == 1 && s.cfg.NoWriteDelayB) {
				k.flush(IKCP_FLUSH_FULL)
			}
			s.post(en, p, false, "Write")
		} else {
			// raw core user: Send whole buffers (fragmenting in message mode), simple application back-pressure
			if k.WaitSnd() >= 2*int(k.snd_wnd) {
				en.nWritten--
				break
			}
			b := en.toWrite[0]
			en.toWrite = en.toWrite[1:]
			p := s.pre(en)
			if r := k.Send(b); r != 0 {
				if (len(b)+int(k.mss)-1)/int(k.mss) > 255 {
					// more than 255 fragments: refusing is the documented limit; the message was not accepted
					s.post(en, p, false, "Send")
					continue
				}
				s.bad("C01:send-refused", "Send of %d bytes returned %d", len(b), r)
			}
			if s.cfg.Stream {
				en.written = append(en.written, b...)
			} else {
				en.wmsgs = append(en.wmsgs, append([]byte(nil), b...))
			}
			s.post(en, p, false, "Send")
		}
	}
}

func vfFirstDiff(a, b []byte) int {
	for i := 0; i < len(a) && i < len(b); i++ {
		if a[i] != b[i] {
			return i
		}
	}
	return min(len(a), len(b))
}

func (s *vfSim) schedUpdate(en *vfEnd, at uint32) {
	en.updAt = int64(at)
	s.push(&vfEvent{t: at, kind: 1, end: en.id})
}

func (s *vfSim) recheck(en *vfEnd) {
	if s.cfg.Mode != "update" || en.k.updated == 0 {
		return // (the first Update of each end is scheduled explicitly: it fixes the phase of its flush clock)
	}
	// ikcp_check: when to call Update next if nothing else happens
	at := en.k.Check() - s.cfg.Clk0
	if int32(at-s.now) < 0 {
		at = s.now
	}
	// Check answers "now" while a resend is due but the flush tick is not: a real caller polls Update until the tick
	// arrives; the simulation goes straight to that tick (the next call that can do anything), which also keeps the
	// flush clock strictly periodic
	if en.lastUpd >= 0 && int64(at) <= en.lastUpd {
		at = en.k.ts_flush - s.cfg.Clk0
		if int64(at) <= en.lastUpd {
			at = uint32(en.lastUpd) + 1
		}
	}
	if en.updAt < 0 || int64(at) < en.updAt {
		s.schedUpdate(en, at)
	}
}

func (s *vfSim) done() bool {
	for i := 0; i < 2; i++ {
		en := s.e[i]
		if s.cfg.NeverReadA && i == 1 {
			if en.paused {
				return false
			}
			continue // what end B sends is never read: only the A->B direction is required to complete
		}
		if len(en.toWrite) > 0 || en.k.WaitSnd() != 0 || en.paused {
			return false
		}
		peer := s.e[1-i]
		if s.cfg.Stream {
			if len(peer.got) != len(en.written) {
				return false
			}
		} else if len(peer.gmsgs) != len(en.wmsgs) {
			return false
		}
	}
	return true
}

// run executes the simulation to completion (drained, violation, or horizon).
func (s *vfSim) run() {
	s.schedUpdate(s.e[0], 0)
	s.schedUpdate(s.e[1], s.cfg.OffsetB)
	for end := 0; end < 2; end++ {
		for _, t := range s.cfg.WriteTimes[end] {
			s.push(&vfEvent{t: t, kind: 3, end: end})
		}
	}
	if s.cfg.WriteGapMsB > 0 {
		for i := range s.cfg.Writes[1] {
			s.push(&vfEvent{t: uint32(i) * s.cfg.WriteGapMsB, kind: 3, end: 1})
		}
	}
	if s.cfg.WriteGapMs > 0 {
		for i := range s.cfg.Writes[0] {
			s.push(&vfEvent{t: uint32(i) * s.cfg.WriteGapMs, kind: 3, end: 0})
		}
	}
	for s.fail == "" {
		if s.done() {
			// let datagrams still in flight arrive (late duplicates must stay harmless), bounded
			if s.drained < 0 {
				s.drained = int64(s.now)
			}
			inflight := false
			for _, ev := range s.q {
				if ev.kind == 0 {
					inflight = true
				}
			}
			if !inflight {
				break
			}
		}
		if s.q.Len() == 0 {
			s.bad("C02:wedged", "no event left but the transfer is not complete")
			break
		}
		ev := heap.Pop(&s.q).(*vfEvent)
		if ev.t > s.cfg.HorizonMs {
			if s.drained < 0 {
				a, b := s.e[0], s.e[1]
				s.bad("C02:not-drained-before-horizon", "after %dms of virtual time: A wrote %d/%d B read %d | A backlog %d, B backlog %d, A rmt_wnd=%d cwnd=%d probe_wait=%d, B rcv_queue=%d rcv_buf=%d",
					s.cfg.HorizonMs, len(a.written)+len(a.wmsgs), len(s.cfg.Writes[0]), len(b.got)+len(b.gmsgs), a.k.WaitSnd(), b.k.WaitSnd(), a.k.rmt_wnd, a.k.cwnd, a.k.probe_wait, b.k.rcv_queue.Len(), b.k.rcv_buf.Len())
			}
			break
		}
		s.now = ev.t
		s.setClock()
		s.steps++
		if s.mtuVal != 0 && !s.mtuDone && s.mtuAtWrite == 0 && s.calls >= s.mtuAt {
			s.mtuDone = true
			s.mtuAccepted = s.e[0].k.SetMtu(s.mtuVal) == 0
			s.tracef("SetMtu(%d) accepted=%v", s.mtuVal, s.mtuAccepted)
		}
		en := s.e[ev.end]
		switch ev.kind {
		case 0:
			s.tracef("end%d receives %d bytes", en.id, len(ev.data))
			p := s.pre(en)
			var pt PacketType = IKCP_PACKET_REGULAR
			what := "Input"
			if ev.fec {
				pt, what = IKCP_PACKET_FEC, "Input(recovered by FEC)"
			} else if segs, err := wire.ParseSegments(ev.data); err == nil && len(segs) > 0 {
				en.modelRmt = uint32(segs[len(segs)-1].Wnd)
			}
			r := en.k.Input(ev.data, pt, s.cfg.AckNoDelay && !(en.id == 1 && s.cfg.AckNoDelayOnlyA))
			s.post(en, p, true, what)
			if en.k.rmt_wnd != en.modelRmt {
				s.bad("C04:peer-window-is-not-the-last-one-advertised", "end %d assumes a peer window of %d after %s; the last datagram that arrived off the wire advertised %d", en.id, en.k.rmt_wnd, what, en.modelRmt)
			}
			if r != 0 {
				s.bad("C01:genuine-packet-rejected", "Input rejected a genuine datagram with %d", r)
			}
		case 1:
			if int64(ev.t) != en.updAt {
				continue // superseded
			}
			en.updAt = -1
			if s.done() && s.drained >= 0 {
				continue
			}
			p := s.pre(en)
			if s.cfg.Mode == "session" {
				iv := en.k.flush(IKCP_FLUSH_FULL)
				s.post(en, p, false, "update")
				if iv == 0 || iv > en.k.interval {
					s.bad("C02:flush-interval", "flush returned next interval %d (interval %d)", iv, en.k.interval)
				}
				if iv == 0 {
					iv = en.k.interval // the session would spin; every other value is used as it is, as UDPSession.update does
				}
				s.schedUpdate(en, s.now+iv)
			} else {
				en.k.Update()
				en.lastUpd = int64(s.now)
				s.post(en, p, false, "Update")
			}
		case 2:
			en.paused = false
			s.tracef("reader resumes")
			if s.cfg.OutageAfterResumeMs > 0 {
				s.cfg.Outage = [2]uint32{s.now, s.now + s.cfg.OutageAfterResumeMs}
			}
		case 3: // the application has produced its next write
		}
		if s.cfg.BatchReader && ev.kind == 0 && s.q.Len() > 0 && s.q[0].t == s.now && s.q[0].kind == 0 {
			continue // more datagrams arrive at this very instant: they are input before the applications run
		}
		s.app(en)
		s.app(s.e[1-ev.end])
		s.recheck(s.e[0])
		s.recheck(s.e[1])
	}
	if s.fail == "" && s.drained < 0 && !s.done() {
		s.bad("C02:wedged", "simulation ended without draining")
	}
}

// outcome is a short label of what happened.
func (s *vfSim) outcome() string {
	var f bytes.Buffer
	for i, x := range s.fates {
		if i < s.cfg.FateFrom {
			continue
		}
		if len(f.Bytes()) >= s.cfg.K {
			break
		}
		f.WriteByte("-xdrltf"[x])
	}
	retr := 0
	for i := 0; i < 2; i++ {
		for _, n := range s.e[i].seen {
			retr += n - 1
		}
	}
	o := ""
	if s.cfg.Outage[1] > 0 {
		o = fmt.Sprintf(" outage=[%d,%d)", s.cfg.Outage[0], s.cfg.Outage[1])
	}
	return fmt.Sprintf("fates=%s retrans=%d%s", f.String(), retr, o)
}
