//go:build verif

package kcp

import (
	"bytes"
	"fmt"
	"time"

	"verif/explore"
	"verif/hx"
	"verif/vrt"
)

// C11, "traffic of other peers never stalls a session": one accepted session is saturated — large windows, no congestion
// control, a multi-megabyte Write towards a peer whose path is slow, so that its transmit pipeline (2048 slots) overflows
// while that peer keeps sending — and a second peer on the same listener exchanges small messages meanwhile. The second
// session's messages must keep arriving promptly (well within a second of virtual time each).
func vfC11Saturated(c *hx.Ctx) {
	for _, ciph := range []string{"", "aes-128"} {
		if c.Quick() && ciph != "" {
			continue
		}
		run := func(e *explore.Exec) explore.Verdict {
			var fail, sig string
			var mu vrt.Mutex
			bad := func(s, format string, args ...any) {
				mu.Lock()
				if fail == "" {
					sig, fail = s, fmt.Sprintf(format, args...)+fmt.Sprintf(" [virtual time %s]", time.Duration(vrt.NowNS()))
				}
				mu.Unlock()
			}
			out := hx.RunVrt(e, vrt.Config{PreemptCost: 1, SwitchCost: 1, SelectCost: 1, TimerEarlyCost: -1, Horizon: 120 * time.Second, MaxSteps: 30000000}, func() {
				vfResetGlobals()
				vrt.SetPoolMode(vrt.PoolPlain)
				n := vfNewNet()
				laddr, aAddr, bAddr := vfUDP(1, 9000), vfUDP(10, 40000), vfUDP(11, 40001)
				lsock := n.socket(laddr)
				slow := []time.Duration{time.Millisecond, 3 * time.Millisecond}[vrt.Choose(2, "time per datagram on the slow path")]
				lsock.slowTo = map[string]time.Duration{aAddr.String(): slow}
				var lis *Listener
				var ca, cb *UDPSession
				vrt.Daemons(func() {
					SystemTimedSched = NewTimedSched(1)
					bl, _ := vfBlockCrypt(ciph)
					lis, _ = ServeConn(bl, 0, 0, lsock)
					b1, _ := vfBlockCrypt(ciph)
					ca, _ = NewConn3(1000, laddr, b1, 0, 0, n.socket(aAddr))
					b2, _ := vfBlockCrypt(ciph)
					cb, _ = NewConn3(2000, laddr, b2, 0, 0, n.socket(bAddr))
				})
				ca.SetNoDelay(1, 10, 2, 1)
				cb.SetNoDelay(1, 10, 2, 1)
				ca.SetWindowSize(4096, 4096)
				ca.Write([]byte("hello from A"))
				cb.Write([]byte("hello from B"))
				var sa, sb *UDPSession
				for i := 0; i < 2; i++ {
					lis.SetReadDeadline(vrt.Now().Add(time.Second))
					s, err := lis.AcceptKCP()
					if err != nil {
						bad("C11:setup", "accept: %v", err)
						return
					}
					if s.GetConv() == 1000 {
						sa = s
					} else {
						sb = s
					}
				}
				if sa == nil || sb == nil {
					bad("C11:setup", "both peers must be accepted")
					return
				}
				buf := make([]byte, 4096)
				sa.Read(buf)
				sb.Read(buf)
				sa.SetNoDelay(1, 10, 2, 1)
				sb.SetNoDelay(1, 10, 2, 1)
				sa.SetWindowSize(4096, 4096)
				var wg vrt.WaitGroup
				stop := false
				// A's accepted session is saturated; A itself keeps sending (every datagram from A makes the listener's receive loop
				// take that session's lock)
				wg.Add(3)
				vrt.Go("server-writes-to-A", func() {
					defer wg.Done()
					sa.SetWriteDeadline(vrt.Now().Add(60 * time.Second))
					sa.Write(make([]byte, 4<<20))
				})
				vrt.Go("A-keeps-sending", func() {
					defer wg.Done()
					for i := 0; i < 400; i++ {
						mu.Lock()
						done := stop
						mu.Unlock()
						if done {
							return
						}
						ca.SetWriteDeadline(vrt.Now().Add(100 * time.Millisecond))
						ca.Write([]byte("more from A"))
						vrt.Sleep(5 * time.Millisecond)
					}
				})
				vrt.Go("A-reads", func() {
					defer wg.Done()
					b := make([]byte, 65536)
					for {
						ca.SetReadDeadline(vrt.Now().Add(2 * time.Second))
						if _, err := ca.Read(b); err != nil {
							return
						}
						mu.Lock()
						done := stop
						mu.Unlock()
						if done {
							return
						}
					}
				})
				// B: ten small messages, 20 ms apart; each must be readable at the server within 500 ms of virtual time
				vrt.Sleep(30 * time.Millisecond)
				for i := 0; i < 10; i++ {
					m := []byte(fmt.Sprintf("message %d from B", i))
					t0 := vrt.NowNS()
					cb.Write(m)
					sb.SetReadDeadline(vrt.Now().Add(500 * time.Millisecond))
					k, err := sb.Read(buf)
					if err != nil || !bytes.Equal(buf[:k], m) {
						bad("C11:session-stalled-by-the-saturation-of-another-session", "message %d of the second peer did not arrive within 500 ms (%v after %s) while another session of the same listener was saturated (slow path: %s per datagram)", i, err, time.Duration(vrt.NowNS()-t0), slow)
						break
					}
					vrt.Sleep(20 * time.Millisecond)
				}
				mu.Lock()
				stop = true
				mu.Unlock()
				sa.Close()
				ca.Close()
				wg.Wait()
				sb.Close()
				cb.Close()
				lis.Close()
				lsock.Close()
				for _, sk := range n.socks {
					sk.Close()
				}
				SystemTimedSched.Close()
			})
			v := explore.Verdict{Outcome: out.Status.String(), NonTriv: true, Pruned: out.Status == vrt.Pruned}
			v.StateHash = explore.HashString(fmt.Sprint(e.Choices()))
			switch {
			case out.Status == vrt.Panicked:
				v.Violation, v.Signature = out.Fail+"\n"+out.Stack, "C11:panic:"+vfPanicSite(out.Stack)
			case out.Status == vrt.Failed:
				v.Violation, v.Signature = out.Fail, "C11:fail:"+firstWords(out.Fail, 5)
			case fail != "":
				v.Violation, v.Signature = fail, sig
			case out.Status != vrt.Done:
				v.Violation, v.Signature = fmt.Sprintf("execution ended %s: application threads blocked: %v", out.Status, vfBlocked(out)), "C11:not-completed:saturated-session"
			}
			return v
		}
		c.UnitBudget = 40 * time.Second
		saved := hx.NoCache
		hx.NoCache = true
		c.Explore("saturated-session/cipher="+ciph, map[string]any{"cipher": ciph, "write_to_the_slow_peer": "4 MiB, windows 4096, nc=1", "slow_path_ms_per_datagram": []int{1, 3}, "second_peer": "10 messages, 20 ms apart, each within 500 ms"}, 0, run)
		hx.NoCache = saved
	}
}
