//go:build verif

package kcp

import (
	"bytes"
	"fmt"
	"time"

	"verif/hx"
	"verif/vrt"
	"verif/wire"
)

// C07 at the consumer: what the decoder reconstructs must reach the stream. A dialled session with FEC receives, by
// hand, all data packets of one group but one, plus parity (built with the real encoder, sealed with the session's
// cipher); there is no peer behind the socket, so nothing is ever retransmitted: the application can read the whole
// stream only if the reconstructed packet is fed to the protocol core. Every lost position x payload-size vectors
// (equal sizes, the lost packet the longest, the shortest, in between) x ratios x cipher classes x which parity arrives
// x parity before/after the data.
func vfC07Session(c *hx.Ctx) {
	if c.Skip("session-recovery") || (c.Of > 1 && c.Shard != 3%c.Of) {
		return
	}
	start := time.Now()
	u := &hx.Unit{Name: "session-recovery", Kind: "enum", Exhaustive: true, Params: map[string]any{"ratios": "2/1 3/2 5/3", "ciphers": []string{"", "aes-128", "aes-gcm"},
		"size_vectors": "equal, lost longest, lost shortest, mixed", "lost": "every data position", "parity": "each parity packet alone, before or after the data"}}
	viol := func(sig, msg string) {
		for _, v := range u.Violations {
			if v.Signature == sig {
				v.Count++
				return
			}
		}
		if len(u.Violations) < 6 {
			u.Violations = append(u.Violations, c.NewViolation("session-recovery", u.Params, sig, msg, ""))
		}
	}
	for _, dp := range [][2]int{{2, 1}, {3, 2}, {5, 3}} {
		d, p := dp[0], dp[1]
		for _, ciph := range []string{"", "aes-128", "aes-gcm"} {
			for lost := 0; lost < d; lost++ {
				for sv := 0; sv < 4; sv++ {
					for par := 0; par < p; par++ {
						for _, parityFirst := range []bool{false, true} {
							sizes := make([]int, d)
							for i := range sizes {
								switch sv {
								case 0:
									sizes[i] = 100
								case 1: // the lost packet is the longest of its group
									sizes[i] = 40 + 7*i
									if i == lost {
										sizes[i] = 900
									}
								case 2: // the lost packet is the shortest
									sizes[i] = 300 + 11*i
									if i == lost {
										sizes[i] = 1
									}
								default:
									sizes[i] = []int{5, 1200, 64, 700, 33}[i%5]
								}
							}
							u.Executions++
							u.NonTrivial++
							where := fmt.Sprintf("FEC %d/%d cipher=%q payload sizes %v, data packet %d lost, parity %d arrives (before the data: %v)", d, p, ciph, sizes, lost, par, parityFirst)
							var got []byte
							var want []byte
							out := vrt.Run(vrt.Config{Chooser: vfDefaultChooser{}, TimerEarlyCost: -1, Horizon: 20 * time.Second, MaxSteps: 2000000}, func() {
								vfResetGlobals()
								vrt.SetPoolMode(vrt.PoolEager)
								n := vfNewNet()
								raddr, laddr := vfUDP(1, 9000), vfUDP(2, 40000)
								sock := n.socket(laddr)
								var sess *UDPSession
								vrt.Daemons(func() {
									SystemTimedSched = NewTimedSched(1)
									bc, _ := vfBlockCrypt(ciph)
									sess, _ = NewConn3(vfConv, raddr, bc, d, p, sock)
									sess.SetNoDelay(1, 10, 2, 1)
								})
								sealer := vfNewSealer(ciph)
								enc := newFECEncoder(d, p, 0)
								var data, parity [][]byte
								for i := 0; i < d; i++ {
									pl := vfPayload(3, sizes[i], len(want))
									want = append(want, pl...)
									seg := wire.EncodeSegment(wire.Seg{Conv: vfConv, Cmd: wire.CmdPush, Wnd: 32, Sn: uint32(i), Data: pl}, -1)
									b := make([]byte, fecHeaderSizePlus2+len(seg), 1500)
									copy(b[fecHeaderSizePlus2:], seg)
									ps := enc.encode(b, 1000)
									data = append(data, sealer.seal(b))
									for _, x := range ps {
										parity = append(parity, sealer.seal(x))
									}
								}
								if len(parity) != p {
									viol("C07:setup", fmt.Sprintf("%s: the encoder produced %d parity packets", where, len(parity)))
									return
								}
								if parityFirst {
									sock.inject(raddr, parity[par])
								}
								for i := 0; i < d; i++ {
									if i != lost {
										sock.inject(raddr, data[i])
									}
								}
								if !parityFirst {
									sock.inject(raddr, parity[par])
								}
								buf := make([]byte, 4096)
								for len(got) < len(want) {
									sess.SetReadDeadline(vrt.Now().Add(500 * time.Millisecond))
									k, err := sess.Read(buf)
									if err != nil {
										break
									}
									got = append(got, buf[:k]...)
								}
								sess.Close()
								sock.Close()
								SystemTimedSched.Close()
							})
							switch {
							case out.Status == vrt.Panicked:
								viol("C07:session-recovery:panic:"+vfPanicSite(out.Stack), where+": "+out.Fail)
							case out.Status == vrt.Failed:
								viol("C07:session-recovery:"+firstWords(out.Fail, 5), where+": "+out.Fail)
							case !bytes.Equal(got, want):
								cls := "in-between"
								switch sv {
								case 0:
									cls = "equal-sizes"
								case 1:
									cls = "lost-packet-is-the-longest"
								case 2:
									cls = "lost-packet-is-the-shortest"
								}
								viol("C07:reconstructed-packet-does-not-reach-the-stream:"+cls, fmt.Sprintf("%s: the application read %d of %d bytes (nothing is ever retransmitted here: the missing packet can only come from the decoder)", where, len(got), len(want)))
							}
						}
					}
				}
			}
		}
		if time.Now().After(c.Deadline) {
			u.Exhaustive, u.CapHit = false, "internal deadline"
			break
		}
	}
	u.Samples = append(u.Samples, map[string]any{"ratio": "3/2", "lost": 1, "sizes": []int{40, 900, 54}, "parity": 0})
	u.EndStatesN = u.Executions
	if len(u.Violations) > 0 {
		u.Exhaustive = false
	}
	u.WallS = time.Since(start).Seconds()
	c.AddUnit(u)
}
