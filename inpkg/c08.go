//go:build verif

package kcp

import (
	"bytes"
	"crypto/aes"
	"crypto/cipher"
	"crypto/des"
	"crypto/sha1"
	"fmt"
	"time"

	"github.com/tjfoc/gmsm/sm4"
	"golang.org/x/crypto/blowfish"
	"golang.org/x/crypto/cast5"
	"golang.org/x/crypto/pbkdf2"
	"golang.org/x/crypto/salsa20"
	"golang.org/x/crypto/tea"
	"golang.org/x/crypto/twofish"
	"golang.org/x/crypto/xtea"

	"verif/explore"
	"verif/hx"
	"verif/vrt"
)

// C08: ciphers round-trip every length and equal textbook CFB.
//
// Complete enumeration of the length space 0..1500 for each of the 14 ciphers, in place and out of
// place, against references built independently of the package: crypto/cipher's CFB over a block
// constructed here with the documented fixed IV, x/crypto salsa20 with the first 8 bytes as nonce,
// the pbkdf2 XOR table, plain copy, stdlib GCM.

// the package's documented fixed IV (copied here on purpose: a change of the IV breaks interoperability)
var vfFixedIV = []byte{167, 115, 79, 156, 18, 172, 27, 1, 164, 21, 242, 193, 252, 120, 230, 107}

type vfCipher struct {
	name   string
	keyLen int
	mk     func(key []byte) (BlockCrypt, error)
	ref    func(key []byte) func(dst, src []byte, decrypt bool) // independent reference
}

func vfCFBRef(mkBlock func(key []byte) (cipher.Block, error)) func(key []byte) func(dst, src []byte, decrypt bool) {
	return func(key []byte) func(dst, src []byte, decrypt bool) {
		b, err := mkBlock(key)
		if err != nil {
			panic(err)
		}
		return func(dst, src []byte, decrypt bool) {
			iv := vfFixedIV[:b.BlockSize()]
			if decrypt {
				cipher.NewCFBDecrypter(b, iv).XORKeyStream(dst, src)
			} else {
				cipher.NewCFBEncrypter(b, iv).XORKeyStream(dst, src)
			}
		}
	}
}

func vfCiphers() []vfCipher {
	blk := func(name string, keyLen int, mk func([]byte) (BlockCrypt, error), nb func([]byte) (cipher.Block, error)) vfCipher {
		return vfCipher{name, keyLen, mk, vfCFBRef(nb)}
	}
	return []vfCipher{
		blk("aes-128", 16, NewAESBlockCrypt, aes.NewCipher),
		blk("aes-192", 24, NewAESBlockCrypt, aes.NewCipher),
		blk("aes-256", 32, NewAESBlockCrypt, aes.NewCipher),
		blk("sm4", 16, NewSM4BlockCrypt, func(k []byte) (cipher.Block, error) { return sm4.NewCipher(k) }),
		blk("twofish", 32, NewTwofishBlockCrypt, func(k []byte) (cipher.Block, error) { return twofish.NewCipher(k) }),
		blk("3des", 24, NewTripleDESBlockCrypt, des.NewTripleDESCipher),
		blk("cast5", 16, NewCast5BlockCrypt, func(k []byte) (cipher.Block, error) { return cast5.NewCipher(k) }),
		blk("blowfish", 32, NewBlowfishBlockCrypt, func(k []byte) (cipher.Block, error) { return blowfish.NewCipher(k) }),
		blk("tea", 16, NewTEABlockCrypt, func(k []byte) (cipher.Block, error) { return tea.NewCipherWithRounds(k, 16) }),
		blk("xtea", 16, NewXTEABlockCrypt, func(k []byte) (cipher.Block, error) { return xtea.NewCipher(k) }),
		{"salsa20", 32, NewSalsa20BlockCrypt, func(key []byte) func(dst, src []byte, decrypt bool) {
			var k [32]byte
			copy(k[:], key)
			return func(dst, src []byte, _ bool) {
				// documented: the first 8 bytes are the nonce and stay in clear; shorter packets carry nothing to encrypt
				if len(src) < 8 {
					copy(dst, src)
					return
				}
				copy(dst[:8], src[:8])
				salsa20.XORKeyStream(dst[8:], src[8:], src[:8], &k)
			}
		}},
		{"xor", 32, NewSimpleXORBlockCrypt, func(key []byte) func(dst, src []byte, decrypt bool) {
			tbl := pbkdf2.Key(key, []byte(`sH3CIVoF#rWLtJo6`), 32, 1500, sha1.New)
			return func(dst, src []byte, _ bool) {
				for i := range src {
					dst[i] = src[i] ^ tbl[i]
				}
			}
		}},
		{"none", 16, NewNoneBlockCrypt, func(key []byte) func(dst, src []byte, decrypt bool) {
			return func(dst, src []byte, _ bool) { copy(dst, src) }
		}},
	}
}

func vfPattern(p, n int) []byte {
	b := make([]byte, n)
	for i := range b {
		switch p {
		case 0:
			b[i] = byte(i*31 + 7)
		case 1:
			b[i] = byte(0xff - i%3)
		case 2:
			b[i] = byte((i*i)>>3 ^ i ^ 0x5a)
		case 3:
			b[i] = 0
		case 4:
			b[i] = 0xff
		default: // a fixed pseudo-random stream per pattern number
			x := uint32(i+1)*2654435761 + uint32(p)*40503
			x ^= x >> 15
			x *= 2246822519
			b[i] = byte(x >> 13)
		}
	}
	return b
}

func vfKey(k, n int) []byte {
	b := make([]byte, n)
	for i := range b {
		b[i] = byte(i*13 + 1 + k*101)
	}
	return b
}

// vfYieldBlock wraps a cipher.Block so that each block operation is a scheduling point.
type vfYieldBlock struct{ cipher.Block }

func (b vfYieldBlock) Encrypt(dst, src []byte) { b.Block.Encrypt(dst, src); vrt.Yield() }
func (b vfYieldBlock) Decrypt(dst, src []byte) { b.Block.Decrypt(dst, src); vrt.Yield() }

func vfC08(c *hx.Ctx) {
	c.Rule("every length 0..1500 x {in place, separate buffers} x 3 (thorough 8) content patterns x 2 (thorough 5) keys for each of 13 BlockCrypt ciphers, plus AES-128/256-GCM over every plaintext length that fits a 1500-byte packet; " +
		"a case is (cipher, key, pattern, length, aliasing); non-trivial = length > 0")
	c.Assume("contents and keys are fixed patterns; lengths, aliasing modes and the control-flow space of the unrolled code (group count, 0..7 leftover blocks, tail bytes) are complete")
	ciphers := vfCiphers()
	for ci, cf := range ciphers {
		if c.Of > 1 && ci%c.Of != c.Shard {
			continue
		}
		if c.Skip(cf.name) {
			continue
		}
		start := time.Now()
		u := &hx.Unit{Name: cf.name, Kind: "enum", Exhaustive: true, Params: map[string]any{"lengths": "0..1500", "aliasing": []string{"dst==src", "dst!=src"}, "patterns": hx.Pick(c, 3, 8), "keys": hx.Pick(c, 2, 5)}}
		viol := func(sig, msg string) {
			for _, v := range u.Violations {
				if v.Signature == sig {
					v.Count++
					return
				}
			}
			u.Violations = append(u.Violations, c.NewViolation(cf.name, u.Params, sig, msg, ""))
		}
		for k := 0; k < hx.Pick(c, 2, 5); k++ {
			key := vfKey(k, cf.keyLen)
			bc, err := cf.mk(key)
			if err != nil {
				viol("C08:constructor:"+cf.name, fmt.Sprintf("%s: constructor failed: %v", cf.name, err))
				continue
			}
			ref := cf.ref(key)
			for p := 0; p < hx.Pick(c, 3, 8); p++ {
				for n := 0; n <= 1500; n++ {
					pt := vfPattern(p, n)
					want := make([]byte, n)
					ref(want, pt, false)
					for _, inplace := range []bool{true, false} {
						u.Executions++
						if n > 0 {
							u.NonTrivial++
						}
						mode := "out-of-place"
						src := append([]byte(nil), pt...)
						dst := make([]byte, n)
						if inplace {
							mode = "in-place"
							dst = src
						}
						func() {
							defer func() {
								if r := recover(); r != nil {
									viol(fmt.Sprintf("C08:panic:%s:%s", cf.name, mode), fmt.Sprintf("%s %s len=%d: panic %v", cf.name, mode, n, r))
								}
							}()
							bc.Encrypt(dst, src)
							if !bytes.Equal(dst, want) {
								cls := "ciphertext-differs-from-reference"
								if cf.name == "salsa20" && n < 8 {
									cls = "short-packet-not-copied"
								}
								viol(fmt.Sprintf("C08:%s:%s:%s", cf.name, mode, cls), fmt.Sprintf("%s %s len=%d: ciphertext differs from the independent reference at byte %d", cf.name, mode, n, vfFirstDiff(dst, want)))
								return
							}
							if !inplace && !bytes.Equal(src, pt) {
								viol(fmt.Sprintf("C08:%s:%s:source-modified", cf.name, mode), fmt.Sprintf("%s len=%d: Encrypt modified its source buffer", cf.name, n))
							}
							ct := append([]byte(nil), dst...)
							back := make([]byte, n)
							if inplace {
								back = ct
							}
							bc.Decrypt(back, ct)
							if !bytes.Equal(back, pt) {
								cls := "round-trip-fails"
								if cf.name == "salsa20" && n < 8 {
									cls = "short-packet-not-copied"
								}
								viol(fmt.Sprintf("C08:%s:%s:%s", cf.name, mode, cls), fmt.Sprintf("%s %s len=%d: decrypt(encrypt(x)) != x at byte %d", cf.name, mode, n, vfFirstDiff(back, pt)))
							}
						}()
						if len(u.Samples) < 2 && n == 777 {
							u.Samples = append(u.Samples, map[string]any{"cipher": cf.name, "key": k, "pattern": p, "length": n, "mode": mode})
						}
					}
				}
			}
		}
		u.EndStatesN = u.Executions
		u.Exhaustive = len(u.Violations) == 0
		u.WallS = time.Since(start).Seconds()
		c.AddUnit(u)
	}
	// AEAD: seal/open inside the packet buffer, as the session does it
	for gi, keyLen := range []int{16, 32} {
		name := fmt.Sprintf("aes-%d-gcm", keyLen*8)
		if c.Of > 1 && (len(ciphers)+gi)%c.Of != c.Shard || c.Skip(name) {
			continue
		}
		start := time.Now()
		u := &hx.Unit{Name: name, Kind: "enum", Exhaustive: true, Params: map[string]any{"plaintext_lengths": "0..1500-12-16 and the first lengths that do not fit"}}
		viol := func(sig, msg string) {
			for _, v := range u.Violations {
				if v.Signature == sig {
					v.Count++
					return
				}
			}
			u.Violations = append(u.Violations, c.NewViolation(name, u.Params, sig, msg, ""))
		}
		key := vfKey(1, keyLen)
		bc, err := NewAESGCMCrypt(key)
		if err != nil {
			viol("C08:gcm:constructor", err.Error())
		}
		a := bc.(*aeadCrypt)
		blk, _ := aes.NewCipher(key)
		refGCM, _ := cipher.NewGCM(blk)
		ns, ov := a.NonceSize(), a.Overhead()
		for p := 0; p < 3; p++ {
			for n := 0; n <= 1500-ns-ov+2; n++ {
				u.Executions++
				u.NonTrivial++
				buf := make([]byte, 1500)[:ns+n]
				pt := vfPattern(p, n)
				copy(buf[:ns], vfPattern(2, ns))
				copy(buf[ns:], pt)
				fits := ns+n+ov <= 1500
				func() {
					defer func() {
						if r := recover(); r != nil {
							if fits {
								viol("C08:gcm:panic", fmt.Sprintf("%s plaintext len=%d: panic %v", name, n, r))
							}
						}
					}()
					sealed := a.Seal(buf[:ns], buf[:ns], buf[ns:], nil)
					if !fits {
						viol("C08:gcm:reallocated", fmt.Sprintf("%s: sealing %d bytes does not fit the packet buffer but was not refused", name, n))
						return
					}
					if len(sealed) != ns+n+ov || &sealed[0] != &buf[:1][0] {
						viol("C08:gcm:not-in-place", fmt.Sprintf("%s len=%d: Seal result has len %d / moved", name, n, len(sealed)))
						return
					}
					want := refGCM.Seal(nil, sealed[:ns], pt, nil)
					if !bytes.Equal(sealed[ns:], want) {
						viol("C08:gcm:ciphertext-differs-from-reference", fmt.Sprintf("%s len=%d: ciphertext differs from stdlib GCM", name, n))
					}
					ct := sealed[ns:]
					back, err := a.Open(ct[:0], sealed[:ns], ct, nil)
					if err != nil || !bytes.Equal(back, pt) {
						viol("C08:gcm:round-trip-fails", fmt.Sprintf("%s len=%d: open(seal(x)) failed: %v", name, n, err))
					} else if n > 0 && &back[0] != &ct[0] {
						viol("C08:gcm:not-in-place", fmt.Sprintf("%s len=%d: Open moved the plaintext", name, n))
					}
				}()
			}
		}
		u.EndStatesN = u.Executions
		u.Exhaustive = len(u.Violations) == 0
		u.Samples = append(u.Samples, map[string]any{"cipher": name, "plaintext_length": 700, "buffer_cap": 1500})
		u.WallS = time.Since(start).Seconds()
		c.AddUnit(u)
	}
	// concurrent callers on one BlockCrypt: results equal the sequential ones under every interleaving
	// (and, in the HB-race build, no race on the shared feedback buffers)
	c.ByUnit = true
	for _, cf := range ciphers {
		if c.Quick() && cf.name != "aes-128" && cf.name != "blowfish" && cf.name != "salsa20" && cf.name != "xor" && cf.name != "sm4" && cf.name != "3des" {
			continue
		}
		cf := cf
		nthreads := hx.Pick(c, 3, 4)
		run := func(e *explore.Exec) explore.Verdict {
			var fail string
			out := hx.RunVrt(e, vrt.Config{PreemptCost: 1, TimerEarlyCost: -1}, func() {
				key := vfKey(0, cf.keyLen)
				bc, _ := cf.mk(key)
				if b, ok := bc.(*blockCrypt); ok {
					// white-box seam: every block-cipher call is a scheduling point, so callers can interleave
					// inside the CFB loops exactly where the shared feedback buffers are live
					b.block = vfYieldBlock{b.block}
				}
				ref := cf.ref(key)
				var wg vrt.WaitGroup
				for t := 0; t < nthreads; t++ {
					t := t
					wg.Add(1)
					vrt.Go(fmt.Sprintf("caller%d", t), func() {
						defer wg.Done()
						for i := 0; i < 2; i++ {
							n := 20 + 9*t + 30*i
							pt := vfPattern(t%3, n)
							want := make([]byte, n)
							ref(want, pt, false)
							got := make([]byte, n)
							if t%2 == 0 {
								bc.Encrypt(got, pt)
							} else {
								// decrypt direction concurrently with encrypt
								bc.Decrypt(got, want)
								want = pt
							}
							if !bytes.Equal(got, want) {
								fail = fmt.Sprintf("%s: concurrent caller %d got a wrong result (len %d)", cf.name, t, n)
							}
						}
					})
				}
				wg.Wait()
			})
			v := explore.Verdict{Outcome: out.Status.String(), NonTriv: len(e.Choices()) > 0, Pruned: out.Status == vrt.Pruned}
			if out.Status == vrt.Panicked {
				v.Violation, v.Signature = out.Fail, "C08:concurrent:panic"
			} else if fail != "" {
				v.Violation, v.Signature = fail, "C08:concurrent:wrong-result:"+cf.name
			}
			return v
		}
		c.UnitBudget = hx.Pick(c, 10*time.Second, 120*time.Second)
		// no state cache: it identifies executions by their happens-before order, which is sound only if every shared access is
		// ordered by it — whether the feedback buffers are is the question here
		saved := hx.NoCache
		hx.NoCache = true
		c.Explore("concurrent/"+cf.name, map[string]any{"threads": nthreads, "calls_per_thread": 2}, hx.Pick(c, 2, 3), run)
		hx.NoCache = saved
	}
	vfC08Sessions(c)
}

// vfC08Sessions: the ciphers as the sessions use them. Every datagram either end of a real session pair hands to its socket
// (data, acknowledgements, FEC parity, out-of-band), for every cipher x FEC {off, 2/1, 3/2} and every fate vector over the
// first K datagrams, must open under the independent implementation (crypto/cipher CFB with the fixed IV + CRC32, x/crypto
// salsa20, cipher.NewGCM with the nonce the datagram carries) - what another implementation of the protocol would do.
func vfC08Sessions(c *hx.Ctx) {
	ciphers := []string{"aes-gcm", "aes-128", "salsa20", "blowfish"}
	if !c.Quick() {
		ciphers = []string{"aes-gcm", "aes-128", "aes-192", "aes-256", "sm4", "twofish", "3des", "cast5", "blowfish", "tea", "xtea", "salsa20", "xor", "none"}
	}
	c.ByUnit = true
	for _, ciph := range ciphers {
		for _, fec := range [][2]int{{0, 0}, {2, 1}, {3, 2}} {
			cf := vfPairCfg{Cipher: ciph, DS: fec[0], PS: fec[1], SDS: -1, Stream: true, NoDelay: [4]int{1, 10, 2, 1}, Writes: []int{300, 1300, 50}, WritesBack: []int{100, 700}, ReadBuf: 4096,
				Pool: vrt.PoolEager, Preempt: 1, Switch: 1, Select: 1, Wire: true, Owners: []string{"C08:"}, K: hx.Pick(c, 3, 4), HorizonS: 60}
			body := func(p *vfPair) {
				if fec[0] > 0 {
					p.client.SendOOB(vfPayload(8, 40, 0))
				}
				vfStdBody(p)
			}
			c.UnitBudget = hx.Pick(c, 4*time.Second, 20*time.Second)
			c.Explore(fmt.Sprintf("session-datagrams/cipher=%s/fec=%d,%d", ciph, fec[0], fec[1]), vfPairParams(cf, 0), 0, vfPairRun(cf, 0, body))
		}
	}
}

func init() { hx.Register("C08", vfC08) }
