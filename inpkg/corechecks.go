//go:build verif

package kcp

import (
	"fmt"
	"strings"
	"time"

	"verif/explore"
	"verif/hx"
	"verif/vrt"
)

// vfCoreRun wraps one core-pair simulation as an explorer run function. owners: signature prefixes
// this check is responsible for (violations of other properties' invariants are reported by the
// checks that own them, which explore the same space).
func vfCoreRun(cfg vfSimCfg, owners ...string) explore.RunFunc {
	return func(e *explore.Exec) explore.Verdict {
		var s *vfSim
		c := cfg
		c.Trace = hx.Tracing
		out := hx.RunVrt(e, vrt.Config{TimerEarlyCost: -1, Horizon: 24 * time.Hour}, func() {
			vfResetGlobals()
			s = vfNewSim(c)
			s.owners = owners
			s.run()
		})
		v := explore.Verdict{}
		if out.Status == vrt.Panicked {
			v.Violation = out.Fail + "\n" + out.Stack
			v.Signature = owners[0] + "panic:" + vfPanicSite(out.Stack)
			v.Detail = strings.Join(s.trace, "\n")
			return v
		}
		v.Outcome = s.outcome()
		v.StateHash = explore.HashString(fmt.Sprintf("%s|%d|%d|%d", v.Outcome, s.drained, s.calls, s.steps))
		v.NonTriv = e.Cost() > 0 || len(e.Choices()) > 0
		if s.fail != "" {
			v.Violation, v.Signature = s.fail, s.sig
			v.Detail = fmt.Sprintf("config %+v\nfates %v\n%s", cfg, s.fates, strings.Join(s.trace, "\n"))
		}
		return v
	}
}

// vfPanicSite extracts the innermost kcp function of a panic stack (stable across schedules).
func vfPanicSite(stack string) string {
	for _, l := range strings.Split(stack, "\n") {
		l = strings.TrimSpace(l)
		if strings.HasPrefix(l, "github.com/xtaci/kcp-go/v5.") && !strings.Contains(l, ".vf") && !strings.Contains(l, "zz_verif") {
			l = strings.TrimPrefix(l, "github.com/xtaci/kcp-go/v5.")
			if i := strings.Index(l, "("); i > 0 && !strings.HasPrefix(l, "(") {
				l = l[:i]
			} else if j := strings.LastIndex(l, "("); j > 0 {
				l = l[:j]
			}
			return l
		}
	}
	return "unknown"
}

type vfNamedCfg struct {
	name string
	cfg  vfSimCfg
}

var vfNoDelays = [][4]int{{0, 100, 0, 0}, {0, 40, 2, 1}, {1, 10, 2, 1}, {1, 20, 0, 0}}

// vfWritePatterns returns write-size sequences built from {1, mss-1, mss, mss+1, 3*mss}.
func vfWritePatterns(mss int, full bool) [][]int {
	a := []int{1, mss - 1, mss, mss + 1, 3 * mss}
	var out [][]int
	pats := [][]int{{4}, {2, 2, 2}, {3, 0, 1}, {0, 4, 3}, {1, 1}, {4, 4, 2}}
	if !full {
		pats = pats[:4]
	}
	for _, p := range pats {
		var w []int
		for _, i := range p {
			if a[i] > 0 {
				w = append(w, a[i])
			}
		}
		out = append(out, w)
	}
	return out
}

// vfCoreGrid builds the configuration grid of the core-pair checks. full: the whole product; otherwise
// a covering set in which every value of every dimension occurs.
func vfCoreGrid(full bool, K int, fates []int) []vfNamedCfg {
	var out []vfNamedCfg
	i := 0
	for _, mode := range []string{"session", "update"} {
		for _, stream := range []bool{true, false} {
			for wi, wnd := range []int{1, 2, 4, 32} {
				for mi, mtu := range []int{25, 40, 1400} {
					for ni, nd := range vfNoDelays {
						mss := mtu - IKCP_OVERHEAD
						for pi, w := range vfWritePatterns(mss, full) {
							i++
							if !full && (wi+mi+ni+pi+i/7)%6 != 0 {
								continue
							}
							// preconditions: a raw message has at most rcv_wnd (and 255) fragments
							ok := true
							total := 0
							for _, n := range w {
								total += n
								frags := (n + mss - 1) / mss
								if !stream && mode == "update" && frags > wnd {
									ok = false
								}
							}
							if !ok || (mss == 1 && total > 12) {
								continue
							}
							c := vfSimCfg{Mode: mode, Stream: stream, SndWnd: [2]int{wnd, wnd}, RcvWnd: [2]int{wnd, wnd}, Mtu: mtu, NoDelay: nd,
								Delay: 10, K: K, Fates: fates, HorizonMs: 600000, PauseAfter: -1}
							c.Writes[0] = w
							c.WriteDelay = (i%3 == 0)
							c.AckNoDelay = (i%5 == 0)
							name := fmt.Sprintf("%s/stream=%v/wnd=%d/mtu=%d/nodelay=%v/writes=%v", mode, stream, wnd, mtu, nd, w)
							out = append(out, vfNamedCfg{name, c})
						}
					}
				}
			}
		}
	}
	return out
}

func vfParams(c vfSimCfg) map[string]any {
	return map[string]any{"fates_from_datagram": c.FateFrom, "mode": c.Mode, "stream": c.Stream, "snd_wnd": c.SndWnd, "rcv_wnd": c.RcvWnd, "mtu": c.Mtu, "nodelay": c.NoDelay,
		"delay_ms": c.Delay, "writes": c.Writes, "K": c.K, "fates": len(c.Fates), "write_delay": c.WriteDelay, "ack_nodelay": c.AckNoDelay}
}

var vfAllFates = []int{vfDeliver, vfDrop, vfDup, vfReorder, vfLate}
var vfTimerFates = []int{vfDeliver, vfDrop, vfRaceRto, vfReorder}

func vfRunGrid(c *hx.Ctx, grid []vfNamedCfg, owners ...string) {
	hx.NoCache = true
	c.ByUnit = true
	for i, g := range grid {
		// what is left of the time is shared among the units this shard still has to run (short units leave their share to the rest)
		rem := (len(grid) - i + max(c.Of, 1) - 1) / max(c.Of, 1)
		c.UnitBudget = time.Until(c.Deadline) / time.Duration(max(rem, 1))
		c.Explore(g.name, vfParams(g.cfg), 0, vfCoreRun(g.cfg, owners...))
	}
}

const vfCoreRule = "two real KCP state machines joined by a datagram bag under a virtual clock; every assignment of a fate from " +
	"{deliver, drop, duplicate, delay past the next datagrams, delay past the RTO} to each of the first K emitted datagrams (both directions) is enumerated, " +
	"then the network is fair; configurations: driving mode x stream/message x window x MTU x nodelay tuple x write-size pattern. " +
	"Each execution is a distinct fate vector; non-trivial = at least one datagram did not take the default fate."

// C01: the reader sees a prefix of what was written.
func vfC01core(c *hx.Ctx) {
	K := hx.Pick(c, 6, 7)
	grid := vfCoreGrid(!c.Quick(), K, vfAllFates)
	// fragment-count boundary of raw message mode: 255 fragments (the maximum), 256 (must be refused), with a
	// reader that polls while the message is only partly received
	for _, w := range [][]int{{255, 3}, {256, 2}, {254, 255}} {
		cf := vfSimCfg{Mode: "update", Stream: false, SndWnd: [2]int{300, 300}, RcvWnd: [2]int{300, 300}, Mtu: 25, NoDelay: [4]int{1, 10, 2, 1},
			Delay: 10, K: hx.Pick(c, 3, 4), Fates: vfAllFates, HorizonMs: 600000, PauseAfter: -1}
		cf.Writes[0] = w
		grid = append(grid, vfNamedCfg{fmt.Sprintf("frg-boundary/update/stream=false/wnd=300/mtu=25/writes=%v", w), cf})
	}
	// the application's bytes look like protocol segments of the same conversation, and the sender overshoots the reader's
	// window (segments beyond the window are rejected — their payload must not be looked at): asymmetric windows, every fate
	for _, mode := range []string{"session", "update"} {
		for _, w := range []int{1, 2, 4} {
			for _, stream := range []bool{true, false} {
				cf := vfSimCfg{Mode: mode, Stream: stream, SndWnd: [2]int{32, 32}, RcvWnd: [2]int{32, w}, Mtu: 24 + 48, NoDelay: [4]int{1, 20, 2, 1},
					Delay: 10, HorizonMs: 600000, PauseAfter: 1, PauseMs: 300, K: K - 2, Fates: vfAllFates, SegmentLikePayload: true}
				cf.Writes[0] = []int{48, 48, 48, 48, 48, 48, 48, 48, 48, 48}
				cf.Writes[1] = []int{48}
				grid = append(grid, vfNamedCfg{fmt.Sprintf("segment-like-payload/%s/stream=%v/rcv_wnd=%d", mode, stream, w), cf})
			}
		}
	}
	vfRunGrid(c, grid, "C01:")
	vfC01MtuRaise(c)
}

// vfC01MtuRaise: the MTU is RAISED while a backlog is queued (allowed at any time): the segments already queued were cut
// at the old segment size and now all have room. Stream mode, raw core user; a first write leaves six full segments
// queued, SetMtu before write 1, 2 or 3, then every sequence of four writes over sizes chosen relative to BOTH segment
// sizes (the difference d, d+-1, the old and the new size, their sum, a small one); loss-free and with the first datagrams
// lost. The reader must see the bytes in the order written.
func vfC01MtuRaise(c *hx.Ctx) {
	type rz struct{ from, to int }
	raises := []rz{{600, 1400}, {600, 601}, {1000, 1400}}
	if c.Quick() {
		raises = raises[:2]
	}
	saved := hx.NoCache
	hx.NoCache = true
	for _, r := range raises {
		for _, mode := range []string{"update", "session"} {
			r, mode := r, mode
			oldMss, newMss := r.from-IKCP_OVERHEAD, r.to-IKCP_OVERHEAD
			d := newMss - oldMss
			sizes := []int{d, 100, newMss, d + newMss, oldMss, d + 1, max(d-1, 1)}
			nw := 4
			run := func(e *explore.Exec) explore.Verdict {
				var s *vfSim
				var label string
				out := hx.RunVrt(e, vrt.Config{TimerEarlyCost: -1, Horizon: 24 * time.Hour}, func() {
					vfResetGlobals()
					at := 1 + vrt.Choose(3, "SetMtu before write #")
					cf := vfSimCfg{Mode: mode, Stream: true, SndWnd: [2]int{4, 4}, RcvWnd: [2]int{32, 32}, Mtu: r.from, NoDelay: [4]int{1, 10, 2, 1}, Delay: 5, HorizonMs: 60000, PauseAfter: -1,
						K: 2, Fates: []int{vfDeliver, vfDrop}}
					cf.Writes[0] = []int{6 * oldMss}
					for i := 0; i < nw; i++ {
						cf.Writes[0] = append(cf.Writes[0], sizes[vrt.Choose(len(sizes), "write size")])
					}
					cf.Writes[0] = append(cf.Writes[0], 2*newMss+7)
					label = fmt.Sprintf("SetMtu(%d->%d) before write #%d of %v", r.from, r.to, at, cf.Writes[0])
					cf.Trace = hx.Tracing
					s = vfNewSim(cf)
					s.owners = []string{"C01:"}
					s.mtuAtWrite, s.mtuVal = at, r.to
					s.run()
				})
				v := explore.Verdict{Outcome: "ok", NonTriv: true}
				switch {
				case out.Status == vrt.Panicked:
					v.Violation, v.Signature = label+": "+out.Fail+"\n"+out.Stack, "C01:panic:"+vfPanicSite(out.Stack)+":mtu-raised-with-a-backlog"
				case s != nil && s.fail != "":
					v.Violation, v.Signature = label+": "+s.fail, s.sig+":mtu-raised-with-a-backlog"
					v.Detail = strings.Join(s.trace, "\n")
				case s != nil && !s.mtuAccepted:
					v.Violation, v.Signature = label+": raising the MTU was refused", "C01:mtu-raise-refused"
				}
				if s != nil {
					v.StateHash = explore.HashString(label)
				}
				return v
			}
			c.UnitBudget = hx.Pick(c, 15*time.Second, 60*time.Second)
			c.Explore(fmt.Sprintf("mtu-raise-with-backlog/%s/%d-to-%d", mode, r.from, r.to), map[string]any{"mode": mode, "mtu_from": r.from, "mtu_to": r.to, "write_sizes": sizes, "writes_enumerated": nw, "first_write": 6 * oldMss}, 0, run)
		}
	}
	hx.NoCache = saved
}

// C02: a healed network always drains the backlog.
func vfC02(c *hx.Ctx) {
	c.Rule(vfCoreRule + " Plus total outages: every datagram emitted in [t0, t0+L) is dropped, t0 at every emission instant of the loss-free run, L in {1 RTO, 3 RTO, 10s, 130s}. Plus session pairs (cipher x FEC x mode grid) under every fate vector over the first K datagrams: blocking readers and writers must all finish.")
	c.Assume("raw message mode: a message has at most rcv_wnd fragments (documented KCP limit)")
	full := c.Deadline
	c.Deadline = time.Now().Add(time.Until(full) * 35 / 100)
	vfC02sess(c)
	c.Deadline = time.Now().Add(time.Until(full) * 75 / 100)
	K := hx.Pick(c, 6, 7)
	grid := vfCoreGrid(!c.Quick(), K, vfAllFates)
	// asymmetric windows with a slow reader: the sender assumes more than the receiver has, segments get parked behind a
	// full delivery queue, and every fate (duplicates, late copies) hits that state too
	for _, mode := range []string{"session", "update"} {
		for _, w := range []int{1, 2, 4} {
			for _, nc := range []int{0, 1} {
				for _, after := range []int{-1, 0, 2} {
					cf := vfSimCfg{Mode: mode, Stream: after != 2, SndWnd: [2]int{32, 32}, RcvWnd: [2]int{32, w}, Mtu: 40, NoDelay: [4]int{1, 20, 2, nc},
						Delay: 10, HorizonMs: 600000, PauseAfter: after, PauseMs: 900, K: K - 1, Fates: vfAllFates}
					cf.Writes[0] = []int{16, 16, 16, 16, 16, 16, 16, 16, 16, 16}
					grid = append(grid, vfNamedCfg{fmt.Sprintf("asym/%s/snd_wnd=32/rcv_wnd=%d/nc=%d/pause-after=%d", mode, w, nc, after), cf})
				}
			}
		}
	}
	// a covering subset again on a process that has been up for 49.7 days: the millisecond clock wraps during the transfer
	// (retransmission deadlines armed before the wrap fall due after it), for several placements of the wrap
	{
		n0 := len(grid)
		for i := 0; i < n0; i += 4 {
			for _, back := range []uint32{45, 130, 275, 610, 1500} {
				g := grid[i]
				g.cfg.Clk0 = uint32(1<<32 - uint64(back))
				g.name = fmt.Sprintf("%s/clock-wraps-%dms-into-the-run", g.name, back)
				grid = append(grid, g)
			}
		}
	}
	vfRunGrid(c, grid, "C02:")
	c.Deadline = full
	// outages on a covering subset: one unit per base configuration, the outage is an environment choice
	for i, g := range vfCoreGrid(false, 0, nil) {
		if c.Quick() && i%3 != 0 {
			continue
		}
		// emission instants of the loss-free run
		var instants []uint32
		vrt.Run(vrt.Config{Chooser: &explore.Exec{}, TimerEarlyCost: -1}, func() {
			vfResetGlobals()
			s := vfNewSim(g.cfg)
			s.logWire = true
			s.run()
			last := uint32(1 << 31)
			for _, l := range s.wireLog {
				var a, b int
				var t uint32
				fmt.Sscanf(l, "%d>%d t=%d", &a, &b, &t)
				if t != last {
					instants = append(instants, t)
					last = t
				}
			}
		})
		cc := g.cfg
		for _, L := range []uint32{200, 600, 10000, 130000} {
			for _, t0 := range instants {
				cc.Outages = append(cc.Outages, [2]uint32{t0, t0 + L})
			}
		}
		cc.HorizonMs = 900000
		c.UnitBudget = 20 * time.Second
		p := vfParams(cc)
		p["outages"] = len(cc.Outages)
		c.Explore("outages/"+g.name, p, 0, vfCoreRun(cc, "C02:"))
	}
	c.ByUnit = false
}

// whole sessions (cipher x FEC x mode grid): every fate vector over the first K datagrams, then a fair network; the
// application threads (blocking Read/Write without deadlines) must all finish and the backlog must return to zero
func vfC02sess(c *hx.Ctx) {
	c.ByUnit = true
	hx.NoCache = false
	Ks := hx.Pick(c, 4, 5)
	sgrid := vfPairGrid(!c.Quick())
	per := (len(sgrid) + max(c.Of, 1) - 1) / max(c.Of, 1)
	left := time.Until(c.Deadline) - 5*time.Second
	for _, g := range sgrid {
		cf := g.cfg
		cf.K = Ks
		cf.Owners = []string{"C02:"}
		c.UnitBudget = max(left/time.Duration(max(per, 1)), 2*time.Second)
		c.Explore("sess-fates/"+g.name, vfPairParams(cf, 0), 0, vfPairRun(cf, 0, vfStdBody))
	}
	c.ByUnit = false
}

func init() {
	hx.Register("C02", vfC02)
}

// vfChoiceRun makes the configuration itself an environment choice (for grids of single executions).
func vfChoiceRun(cfgs []vfNamedCfg, owners ...string) explore.RunFunc {
	return func(e *explore.Exec) explore.Verdict {
		var s *vfSim
		var name string
		out := hx.RunVrt(e, vrt.Config{TimerEarlyCost: -1, Horizon: 24 * time.Hour}, func() {
			vfResetGlobals()
			g := cfgs[vrt.Choose(len(cfgs), "configuration")]
			name = g.name
			c := g.cfg
			c.Trace = hx.Tracing
			s = vfNewSim(c)
			s.owners = owners
			s.run()
		})
		v := explore.Verdict{NonTriv: true}
		if out.Status == vrt.Panicked {
			v.Violation = name + ": " + out.Fail + "\n" + out.Stack
			v.Signature = owners[0] + "panic:" + vfPanicSite(out.Stack)
			return v
		}
		v.Outcome = name + " " + s.outcome()
		v.StateHash = explore.HashString(fmt.Sprintf("%s|%d|%d|%d", v.Outcome, s.drained, s.calls, s.steps))
		if s.fail != "" {
			v.Violation, v.Signature = name+": "+s.fail, s.sig
			v.Detail = fmt.Sprintf("config %+v\n%s", s.cfg, strings.Join(s.trace, "\n"))
		}
		return v
	}
}

// C03: a stalled reader throttles the sender and the transfer resumes afterwards.
func vfC03(c *hx.Ctx) {
	c.Rule("core pair; the reader stops after every possible number of delivered segments for {0.3s (< first probe), 0.7s, 5s, 130s (> probe cap)}; " +
		"every subset of the first N control-only (ACK/WASK/WINS) datagrams emitted after the pause began is lost (N=6 quick, 9 thorough); receive window {1,2,4} (thorough {1,2,3,4,8}, also in no-delay mode) against a sender assuming 32; " +
		"nc in {0,1}; both driving modes. Non-trivial = at least one control datagram lost.")
	// whole sessions first (a bounded share of the time)
	{
		full := c.Deadline
		c.Deadline = time.Now().Add(time.Until(full) * 30 / 100)
		hx.NoCache = false
		vfC03sess(c)
		c.Deadline = full
	}
	hx.NoCache = true
	c.ByUnit = true
	n := hx.Pick(c, 6, 9)
	var grid []vfNamedCfg
	wnds, ndl := []int{1, 2, 4}, [][2]int{{0, 40}}
	if !c.Quick() {
		wnds, ndl = []int{1, 2, 3, 4, 8}, [][2]int{{0, 40}, {1, 10}}
	}
	for _, mode := range []string{"session", "update"} {
		for _, w := range wnds {
			for _, nc := range []int{0, 1} {
				for _, nd := range ndl {
					for _, pauseMs := range []uint32{300, 700, 5000, 130000} {
						for after := 0; after <= 5; after++ {
							cf := vfSimCfg{Mode: mode, Stream: true, SndWnd: [2]int{32, 32}, RcvWnd: [2]int{32, w}, Mtu: 40, NoDelay: [4]int{nd[0], nd[1], 2, nc},
								Delay: 10, HorizonMs: pauseMs + 120000 + 200000, PauseAfter: after, PauseMs: pauseMs, CtrlDropN: n}
							cf.Writes[0] = []int{16, 16, 16, 16, 16, 16, 16, 16}
							if w == 8 {
								cf.Writes[0] = append(cf.Writes[0], 16, 16, 16, 16, 16, 16, 16, 16)
							}
							grid = append(grid, vfNamedCfg{fmt.Sprintf("%s/rcv_wnd=%d/nc=%d/nodelay=%d/pause=%dms after %d segs", mode, w, nc, nd[0], pauseMs, after), cf})
							if (after == 0 || after == 2) && (pauseMs == 700 || pauseMs == 5000) && w <= 2 {
								// the same on a process that has been up for weeks: the millisecond clock in the upper half of its range, and about to
								// wrap (probe timers are armed and compared on that clock)
								for _, clk := range []uint32{1<<31 + 12345, 1<<32 - 3000} {
									cc := cf
									cc.Clk0 = clk
									grid = append(grid, vfNamedCfg{fmt.Sprintf("%s/rcv_wnd=%d/nc=%d/nodelay=%d/pause=%dms after %d segs/clock0=%d", mode, w, nc, nd[0], pauseMs, after, clk), cc})
								}
							}
							if pauseMs >= 5000 {
								cf.OutageAfterResumeMs = 1000
								cf.CtrlDropN = 2
								grid = append(grid, vfNamedCfg{fmt.Sprintf("%s/rcv_wnd=%d/nc=%d/nodelay=%d/pause=%dms after %d segs/1s-outage-at-resume", mode, w, nc, nd[0], pauseMs, after), cf})
							}
						}
					}
				}
			}
		}
	}
	// both directions blocked: both readers stall, both windows reach zero, both ends probe each other (their probe timers
	// are armed by the same exchange and stay in step)
	for _, mode := range []string{"session", "update"} {
		for _, w := range []int{1, 2} {
			for _, pauseMs := range []uint32{700, 5000, 130000} {
				for _, after := range []int{0, 1, 2} {
					for _, off := range []uint32{0, 30, 1000} {
						cf := vfSimCfg{Mode: mode, Stream: true, SndWnd: [2]int{32, 32}, RcvWnd: [2]int{w, w}, Mtu: 40, NoDelay: [4]int{0, 100, 0, 1}, OffsetB: off % 100,
							Delay: 10, HorizonMs: pauseMs + 120000 + 400000, PauseAfter: after, PauseBoth: off != 1000, NeverReadA: off == 1000, PauseMs: pauseMs, CtrlDropN: n}
						cf.Writes[0] = []int{16, 16, 16, 16, 16, 16, 16, 16}
						cf.Writes[1] = []int{16, 16, 16, 16, 16, 16, 16, 16}
						grid = append(grid, vfNamedCfg{fmt.Sprintf("both-directions/%s/rcv_wnd=%d/pause=%dms after %d segs/flush-offset=%d", mode, w, pauseMs, after, off), cf})
						cf.OutageAfterResumeMs = 1000
						cf.CtrlDropN = 2
						grid = append(grid, vfNamedCfg{fmt.Sprintf("both-directions/%s/rcv_wnd=%d/pause=%dms after %d segs/flush-offset=%d/1s-outage-at-resume", mode, w, pauseMs, after, off), cf})
						// the peer's first burst just fills our window and is acknowledged; the rest of its data is produced later and
						// stays queued behind the closed window (nothing in flight whose retransmissions could carry a window update)
						cf.WriteTimes[1] = nil
						for i := range cf.Writes[1] {
							t := uint32(0)
							if i >= w {
								t = 400
							}
							cf.WriteTimes[1] = append(cf.WriteTimes[1], t)
						}
						grid = append(grid, vfNamedCfg{fmt.Sprintf("both-directions/%s/rcv_wnd=%d/pause=%dms after %d segs/flush-offset=%d/1s-outage-at-resume/peer-data-queued-not-in-flight", mode, w, pauseMs, after, off), cf})
					}
				}
			}
		}
	}
	per := (len(grid) + max(c.Of, 1) - 1) / max(c.Of, 1)
	left := time.Until(c.Deadline)
	for _, g := range grid {
		c.UnitBudget = left / time.Duration(max(per, 1))
		p := vfParams(g.cfg)
		p["pause_ms"], p["pause_after_segments"], p["lossy_control_datagrams"] = g.cfg.PauseMs, g.cfg.PauseAfter, n
		c.Explore(g.name, p, 0, vfCoreRun(g.cfg, "C01:", "C02:", "C04:"))
	}
	// the probing mechanism itself, against an arbitrary peer: every state within the depth bound
	vfAdversarialBFS(c, "C03:", 4, false)
}

// C04 (part 1): window discipline on every step of honest traffic, symmetric and asymmetric windows.
func vfC04honest(c *hx.Ctx) {
	K := hx.Pick(c, 5, 7)
	grid := vfCoreGrid(!c.Quick(), K, vfAllFates)
	// asymmetric windows: the sender assumes more than the receiver has; the reader is slow
	for _, mode := range []string{"session", "update"} {
		for _, w := range []int{1, 2, 4} {
			for _, sw := range []int{4 * w, 32} {
				for _, nc := range []int{0, 1} {
					for _, after := range []int{-1, 0, 2} {
						cf := vfSimCfg{Mode: mode, Stream: true, SndWnd: [2]int{sw, sw}, RcvWnd: [2]int{32, w}, Mtu: 40, NoDelay: [4]int{1, 20, 2, nc},
							Delay: 10, HorizonMs: 600000, PauseAfter: after, PauseMs: 900, K: K, Fates: vfAllFates}
						cf.Writes[0] = []int{16, 16, 16, 16, 16, 16, 16, 16, 16, 16}
						grid = append(grid, vfNamedCfg{fmt.Sprintf("asym/%s/snd_wnd=%d/rcv_wnd=%d/nc=%d/pause-after=%d", mode, sw, w, nc, after), cf})
						if after == -1 && nc == 0 {
							// warmed-up connection (congestion window open): faults start after the first datagrams
							for _, from := range []int{8, 14} {
								wf := cf
								wf.Fates = vfTimerFates
								wf.K = K + 1
								wf.FateFrom = from
								wf.Writes[0] = []int{16, 16, 16, 16, 16, 16, 16, 16, 16, 16, 16, 16, 16, 16}
								wf.WriteGapMs = 25
								grid = append(grid, vfNamedCfg{fmt.Sprintf("asym/%s/snd_wnd=%d/rcv_wnd=%d/nc=%d/warm-from-%d", mode, sw, w, nc, from), wf})
							}
						}
						if after == -1 {
							// application-limited sender: new data keeps arriving while a loss is being repaired
							cf.WriteGapMs = 130
							cf.Writes[0] = []int{16, 16, 16, 16, 16, 16}
							grid = append(grid, vfNamedCfg{fmt.Sprintf("asym/%s/snd_wnd=%d/rcv_wnd=%d/nc=%d/app-limited", mode, sw, w, nc), cf})
						}
					}
				}
			}
		}
	}
	// warmed-up connections with an open congestion window and plenty of data: faults (incl. an
	// acknowledgement racing the retransmission timer) start after the first datagrams
	for _, mode := range []string{"session", "update"} {
		for _, nd := range [][4]int{{0, 10, 2, 0}, {1, 20, 2, 0}, {0, 40, 1, 0}} {
			for _, from := range []int{10, 16, 22, 30} {
				cf := vfSimCfg{Mode: mode, Stream: true, SndWnd: [2]int{8, 8}, RcvWnd: [2]int{8, 8}, Mtu: 40, NoDelay: nd,
					Delay: 10, HorizonMs: 600000, PauseAfter: -1, K: K + 1, Fates: vfTimerFates, FateFrom: from}
				for i := 0; i < 24; i++ {
					cf.Writes[0] = append(cf.Writes[0], 16)
				}
				grid = append(grid, vfNamedCfg{fmt.Sprintf("warm/%s/wnd=8/nodelay=%v/faults-from-datagram-%d", mode, nd, from), cf})
			}
		}
	}
	// datagrams lost on the wire and rebuilt from parity later reach the core marked "recovered by FEC": they are older than
	// what arrived since; the peer's window must stay the one last advertised on the wire (a reader that stalls: the window
	// shrinks from datagram to datagram, so a stale one is larger)
	fecFates := []int{vfDeliver, vfDrop, vfFecLate}
	for _, mode := range []string{"session", "update"} {
		for _, w := range []int{2, 4} {
			for _, nc := range []int{0, 1} {
				for _, after := range []int{0, 1, 2} {
					cf := vfSimCfg{Mode: mode, Stream: true, SndWnd: [2]int{32, 32}, RcvWnd: [2]int{32, w}, Mtu: 40, NoDelay: [4]int{1, 20, 2, nc},
						Delay: 10, HorizonMs: 600000, PauseAfter: after, PauseMs: 900, K: K + 2, Fates: fecFates}
					cf.Writes[0] = []int{16, 16, 16, 16, 16, 16, 16, 16, 16, 16}
					cf.Writes[1] = []int{16}
					grid = append(grid, vfNamedCfg{fmt.Sprintf("fec-recovered/%s/rcv_wnd=%d/nc=%d/pause-after=%d", mode, w, nc, after), cf})
				}
			}
		}
	}
	vfRunGrid(c, grid, "C04:")
}

// C18 (part 1): no retransmission on a clean path; RTO within bounds on every step.
func vfC18clean(c *hx.Ctx) {
	hx.NoCache = true
	var cfgs []vfNamedCfg
	for _, mode := range []string{"session", "update"} {
		nds := [][4]int{{0, 100, 0, 0}, {0, 40, 2, 1}, {0, 20, 2, 0}, {1, 10, 2, 1}, {1, 20, 0, 0}, {1, 10, 1, 0}, {0, 10, 0, 1},
			{1, 11, 2, 1}, {1, 12, 2, 0}, {1, 13, 1, 1}, {0, 11, 2, 1}, {0, 13, 0, 0}, {0, 33, 2, 1}, {1, 17, 2, 1}}
		Ds := []uint32{0, 1, 2, 3, 5, 7, 10, 14, 20, 40}
		if !c.Quick() {
			// thorough: every interval 10..27 in no-delay mode, a spread in normal mode, and every one-way delay that satisfies the precondition
			for iv := 10; iv <= 27; iv++ {
				nds = append(nds, [4]int{1, iv, iv % 3, iv % 2})
			}
			for _, iv := range []int{15, 25, 50, 66, 75, 90, 97} {
				nds = append(nds, [4]int{0, iv, iv % 3, iv % 2})
			}
			Ds = Ds[:0]
			for D := uint32(0); D < 50; D++ {
				Ds = append(Ds, D)
			}
		}
		for _, nd := range nds {
			minrto := uint32(IKCP_RTO_MIN)
			if nd[0] != 0 {
				minrto = IKCP_RTO_NDL
			}
			for _, D := range Ds {
				// the peer acknowledges on its own flush interval (same setting at both ends)
				if 2*D+uint32(nd[1]) >= minrto {
					continue
				}
				for _, wnd := range [][2]int{{1, 32}, {4, 32}, {32, 32}, {64, 64}, {8, 8}} { // {snd_wnd, peer rcv_wnd}: rcv >= min(snd, 32)
					for _, stream := range []bool{true, false} {
						for pi, nseg := range []int{1, 3, 3 * wnd[0]} {
							for variant := 0; variant < 4; variant++ {
								if nseg > 100 {
									nseg = 100
								}
								var w []int
								for i := 0; i < nseg; i++ {
									w = append(w, []int{16, 1, 15, 17, 48}[(i+pi)%5])
								}
								cf := vfSimCfg{Mode: mode, Stream: stream, SndWnd: [2]int{wnd[0], wnd[0]}, RcvWnd: [2]int{wnd[1], wnd[1]}, Mtu: 40, NoDelay: nd,
									Delay: D, HorizonMs: 600000, PauseAfter: -1, CleanPath: true, AckNoDelay: variant&1 != 0, WriteDelay: variant&2 != 0}
								cf.Writes[0] = w
								cf.Writes[1] = w[:min(len(w), 2)]
								if variant&2 != 0 {
									cf.WriteGapMs = 7 // application writes spread over time (not aligned with the flush interval)
								}
								cfgs = append(cfgs, vfNamedCfg{fmt.Sprintf("%s/nodelay=%v/D=%d/snd=%d,rcv=%d/stream=%v/%dwrites/acknodelay=%v/writedelay=%v", mode, nd, D, wnd[0], wnd[1], stream, len(w), cf.AckNoDelay, cf.WriteDelay), cf})
							}
						}
					}
				}
			}
		}
	}
	// bursts larger than the receive window against a send window larger than the receive window: the receiver inputs all
	// datagrams of an instant before its reader runs; only the window the peer advertised (and the 32 a sender assumes
	// before it is told) keeps the sender from overrunning it
	for _, mode := range []string{"session", "update"} {
		for _, nd := range [][4]int{{1, 10, 2, 1}, {1, 10, 0, 0}, {0, 40, 2, 1}, {0, 20, 0, 0}} {
			for _, D := range []uint32{1, 5} {
				for _, wnd := range [][2]int{{128, 32}, {64, 32}, {256, 32}, {128, 128}, {256, 64}} {
					for _, stream := range []bool{true, false} {
						for _, nseg := range []int{100, 200} {
							var w []int
							for i := 0; i < nseg; i++ {
								w = append(w, 16)
							}
							cf := vfSimCfg{Mode: mode, Stream: stream, SndWnd: [2]int{wnd[0], wnd[0]}, RcvWnd: [2]int{wnd[1], wnd[1]}, Mtu: 40, NoDelay: nd,
								Delay: D, HorizonMs: 600000, PauseAfter: -1, CleanPath: true, BatchReader: true}
							cf.Writes[0] = w
							cf.Writes[1] = w[:2]
							cfgs = append(cfgs, vfNamedCfg{fmt.Sprintf("burst/%s/nodelay=%v/D=%d/snd=%d,rcv=%d/stream=%v/%dwrites", mode, nd, D, wnd[0], wnd[1], stream, nseg), cf})
						}
					}
				}
			}
		}
	}
	// two independent flush clocks (different intervals, phase offsets), applications writing at their own pace in both
	// directions: many relative alignments of "data queued", "acknowledgement-only flush", "full flush" and "ack arrives"
	for _, mode := range []string{"session", "update"} {
		for _, iv := range [][3]int{{1, 12, 19}, {1, 11, 19}, {1, 13, 17}, {1, 10, 19}, {1, 12, 12}, {0, 30, 83}, {0, 40, 83}, {0, 33, 61}} { // nodelay, interval A, interval B
			minrto := uint32(IKCP_RTO_MIN)
			if iv[0] != 0 {
				minrto = IKCP_RTO_NDL
			}
			offs := []uint32{0, 3, 7}
			if !c.Quick() {
				offs = offs[:0]
				for o := uint32(0); o < uint32(iv[2]); o += 2 {
					offs = append(offs, o)
				}
			}
			for _, D := range []uint32{1, 2, 4, 5} {
				if 2*D+uint32(max(iv[1], iv[2])) >= minrto {
					continue
				}
				for _, off := range offs {
					for _, gaps := range [][2]uint32{{7, 5}, {5, 9}, {13, 4}} {
						for variant := 0; variant < 4; variant++ {
							for _, nc := range []int{0, 1} {
								cf := vfSimCfg{Mode: mode, Stream: true, SndWnd: [2]int{32, 32}, RcvWnd: [2]int{32, 32}, Mtu: 40, NoDelay: [4]int{iv[0], iv[1], 2, nc}, IntervalB: iv[2], OffsetB: off,
									Delay: D, HorizonMs: 600000, PauseAfter: -1, CleanPath: true, AckNoDelay: variant&1 != 0, WriteDelay: variant&2 != 0, WriteGapMs: gaps[0], WriteGapMsB: gaps[1]}
								for i := 0; i < 60; i++ {
									cf.Writes[0] = append(cf.Writes[0], 10)
									cf.Writes[1] = append(cf.Writes[1], 12)
								}
								cfgs = append(cfgs, vfNamedCfg{fmt.Sprintf("twoclocks/%s/nodelay=%d/intervals=%d,%d/offset=%d/D=%d/gaps=%v/acknodelay=%v/writedelay=%v/nc=%d", mode, iv[0], iv[1], iv[2], off, D, gaps, cf.AckNoDelay, cf.WriteDelay, nc), cf})
							}
						}
					}
				}
			}
		}
	}
	// a trained estimator, then one outlier: end A writes at a period commensurate with both flush clocks (identical RTT samples
	// bring the RTO down to its minimum), then one extra write right after one of its flushes, while one data packet of end B
	// arrives at EVERY offset of the following flush interval (an acknowledgement-only flush while data is queued), for every
	// phase between the two flush clocks
	for _, mode := range []string{"update", "session"} {
		for _, nd := range [][4]uint32{{1, 10, 19, 4}, {1, 12, 19, 4}, {1, 12, 20, 4}, {1, 13, 19, 4}, {0, 30, 83, 5}, {0, 40, 83, 5}} { // nodelay, interval A, interval B, D
			ia, ib, D := nd[1], nd[2], nd[3]
			pstep, dstep := uint32(1), uint32(1)
			if nd[0] == 0 {
				pstep, dstep = 4, 3
			}
			if c.Quick() {
				pstep *= 2
			}
			for phase := uint32(0); phase < ib; phase += pstep {
				for j := uint32(0); j < 3; j++ {
					for d := uint32(0); d < ia; d += dstep {
						for v := 0; v < 3; v++ {
							and := v != 2
							if !and && (d+phase)%3 != 0 {
								continue
							}
							if v == 1 && mode == "update" {
								continue // a raw-core user cannot force a flush
							}
							cf := vfSimCfg{Mode: mode, Stream: false, SndWnd: [2]int{128, 128}, RcvWnd: [2]int{128, 128}, NoDelay: [4]int{int(nd[0]), int(ia), 0, 1}, IntervalB: int(ib), OffsetB: phase,
								Delay: D, HorizonMs: 600000, PauseAfter: -1, CleanPath: true, AckNoDelay: and, AckNoDelayOnlyA: d%2 == 0, WriteDelay: true, NoWriteDelayB: v == 1}
							for i := uint32(0); i < 6; i++ {
								cf.Writes[0] = append(cf.Writes[0], 100)
								cf.WriteTimes[0] = append(cf.WriteTimes[0], i*ia*ib+1)
							}
							ex := ia*ib*6 + j*ia + 1
							cf.Writes[0] = append(cf.Writes[0], 100)
							cf.WriteTimes[0] = append(cf.WriteTimes[0], ex)
							cf.Writes[1] = []int{10}
							cf.WriteTimes[1] = []uint32{ex - D + d}
							cfgs = append(cfgs, vfNamedCfg{fmt.Sprintf("outlier/%s/nodelay=%d/intervals=%d,%d/phase=%d/extra-write-after-flush-%d/peer-data-written=+%d/acknodelay=%v/peer-flushes-at-once=%v", mode, nd[0], ia, ib, phase, j, d, and, v == 1), cf})
						}
					}
				}
			}
		}
	}
	// the same clean path where the connection happens to be near the wrap of its sequence numbers or of the millisecond
	// clock: a covering subset of the grid above, re-run with the 2^32 and 2^31 boundaries placed before, inside and after
	// the transfer
	base := len(cfgs)
	for i := 0; i < base; i += max(base/hx.Pick(c, 160, 1200), 1) {
		g := cfgs[i]
		nseg := uint32(len(g.cfg.Writes[0])) + 2
		for k, sn0 := range []uint32{-(nseg / 2), ^uint32(0), -(nseg + 3), 1<<31 - nseg/2, 1<<31 - 1} {
			for j, clk0 := range []uint32{-(g.cfg.Delay + 3), ^uint32(24), ^uint32(149), ^uint32(999), 1<<31 - 40} {
				if (k+j+i)%3 != 0 && c.Quick() {
					continue
				}
				cf := g.cfg
				cf.Sn0, cf.Clk0 = sn0, clk0
				cfgs = append(cfgs, vfNamedCfg{fmt.Sprintf("%s/sn0=2^32%+d/clock0=2^32%+d", g.name, int32(sn0), int32(clk0)), cf})
			}
		}
	}
	c.UnitBudget = time.Until(c.Deadline) / 2
	c.Explore("clean-path-grid", map[string]any{"configurations": len(cfgs), "of_which_near_a_wrap": len(cfgs) - base,
		"dimensions": "mode x nodelay tuple x one-way delay D (2D+interval < min RTO) x (snd_wnd, peer rcv_wnd) x stream/message x transfer length; bidirectional"}, 0,
		vfChoiceRun(cfgs, "C18:"))
}
