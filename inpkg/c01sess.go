//go:build verif

package kcp

import (
	"bytes"
	"fmt"
	"time"

	"verif/hx"
	"verif/vrt"
)

type vfNamedPair struct {
	name string
	cfg  vfPairCfg
}

var vfCipherClasses = []string{"", "aes-128", "blowfish", "salsa20", "xor", "none", "aes-gcm"}
var vfFecClasses = [][2]int{{0, 0}, {1, 1}, {2, 1}, {3, 2}}

// vfPairGrid builds session-pair configurations. full: cipher x FEC x mode product; else a covering set in
// which every cipher and every FEC class occurs with FEC on and off resp. every cipher class.
func vfPairGrid(full bool) []vfNamedPair {
	var out []vfNamedPair
	i := 0
	for ci, ciph := range vfCipherClasses {
		for fi, fec := range vfFecClasses {
			for _, stream := range []bool{true, false} {
				i++
				si := 0
				if stream {
					si = 1
				}
				if !full && (ci+2*fi+si)%3 != 0 {
					continue
				}
				mss := 1400 - 24
				if ciph == "aes-gcm" {
					mss -= 12 + 16
				} else if ciph != "" {
					mss -= 20
				}
				if fec[0] > 0 {
					mss -= 8
				}
				writes := [][]int{{1, mss, mss + 1}, {2*mss + 3, 1}, {mss, mss, 7}, {mss + 1, 2*mss + 3}}[i%4]
				rb := []int{1, 7, mss, 4 * mss}[(i/2)%4]
				if rb == 1 {
					writes = []int{3, 40, 1} // one-byte reads: keep the transfer short
				}
				c := vfPairCfg{Cipher: ciph, DS: fec[0], PS: fec[1], SDS: -1, Stream: stream, WriteDelay: i%2 == 0, AckNoDelay: i%3 == 0,
					NoDelay: [][4]int{{1, 10, 2, 1}, {0, 40, 0, 0}, {1, 20, 2, 0}}[i%3], SndWnd: []int{32, 4, 128}[i%3], RcvWnd: []int{32, 4, 128}[i%3],
					Writes: writes, ReadBuf: rb, Pool: vrt.PoolEager, Preempt: 1, Switch: 1, Select: 1}
				if i%5 == 0 {
					c.WritesBack = []int{5, mss}
				}
				out = append(out, vfNamedPair{fmt.Sprintf("cipher=%s/fec=%d,%d/stream=%v/wd=%v/writes=%v/readbuf=%d", ciph, fec[0], fec[1], stream, c.WriteDelay, writes, rb), c})
			}
		}
	}
	return out
}

func vfPairParams(c vfPairCfg, bound int) map[string]any {
	return map[string]any{"cipher": c.Cipher, "fec": []int{c.DS, c.PS}, "stream": c.Stream, "write_delay": c.WriteDelay, "nodelay": c.NoDelay, "wnd": c.SndWnd,
		"writes": c.Writes, "writes_back": c.WritesBack, "read_buf": c.ReadBuf, "K": c.K, "deviation_bound": bound, "mtu": c.Mtu}
}

// standard body: transfer, then drain, then teardown
func vfStdBody(p *vfPair) {
	p.traffic()
	if !p.failed() {
		p.drainBacklog()
	}
	p.teardown()
}

// C01 (ii): session pair.
func vfC01sess(c *hx.Ctx) {
	c.ByUnit = true
	hx.NoCache = false
	vfC01TwoWriters(c)
	grid := vfPairGrid(!c.Quick())
	K := hx.Pick(c, 5, 6)
	c.ByUnit = true
	hx.NoCache = false
	n := 2 * len(grid)
	per := (n + max(c.Of, 1) - 1) / max(c.Of, 1)
	left := time.Until(c.Deadline)
	for _, g := range grid {
		// (a) every fate vector over the first K datagrams on the default schedule
		cf := g.cfg
		cf.K = K
		cf.Owners = []string{"C01:"}
		c.UnitBudget = left / time.Duration(max(per, 1))
		c.Explore("sess-fates/"+g.name, vfPairParams(cf, 0), 0, vfPairRun(cf, 0, vfStdBody))
		// (b) every single scheduling deviation on the loss-free run
		cf.K = 0
		c.UnitBudget = left / time.Duration(max(per, 1))
		b := hx.Pick(c, 2, 3)
		c.Explore("sess-sched/"+g.name, vfPairParams(cf, b), b, vfPairRun(cf, b, vfStdBody))
	}
}

// vfC01TwoWriters: two application goroutines write to ONE session at the same time (and two read from the other end's
// session). Each Write is one record: the stream must be a concatenation of whole records in some order — a Write is
// never interleaved with another Write's bytes, however long it is — and concurrent readers together see exactly the
// stream. Every single scheduling deviation (bound 1).
func vfC01TwoWriters(c *hx.Ctx) {
	for _, ciph := range []string{"", "aes-128"} {
		if c.Quick() && ciph != "" {
			continue
		}
		cf := vfPairCfg{Cipher: ciph, SDS: -1, Stream: true, NoDelay: [4]int{1, 10, 2, 1}, SndWnd: 1024, RcvWnd: 1024, Mtu: 224, ReadBuf: 65536,
			Pool: vrt.PoolEager, Preempt: 1, Switch: 1, Select: 1, Owners: []string{"C01:"}, HorizonS: 60}
		body := func(p *vfPair) {
			p.client.mu.Lock()
			mss := int(p.client.kcp.mss)
			p.client.mu.Unlock()
			recLen := 70 * mss // longer than any batch the library might hand to the core in one go
			recs := [][]byte{bytes.Repeat([]byte{'A'}, recLen), bytes.Repeat([]byte{'B'}, recLen), bytes.Repeat([]byte{'C'}, 3*mss+5)}
			var wg vrt.WaitGroup
			for i := 0; i < 2; i++ {
				i := i
				wg.Add(1)
				vrt.Go(fmt.Sprintf("writer-%d", i), func() {
					defer wg.Done()
					if _, err := p.client.Write(recs[i]); err != nil {
						p.bad("C01:write-error", "writer %d: %v", i, err)
					}
					if i == 1 {
						p.client.Write(recs[2])
					}
				})
			}
			total := 2*recLen + len(recs[2])
			var got []byte
			wg.Add(1)
			vrt.Go("reader", func() {
				defer wg.Done()
				s, err := p.listener.AcceptKCP()
				if err != nil {
					p.bad("C01:setup", "accept: %v", err)
					return
				}
				p.mu.Lock()
				p.server = s
				p.mu.Unlock()
				p.tune(s)
				buf := make([]byte, 65536)
				for len(got) < total {
					s.SetReadDeadline(vrt.Now().Add(20 * time.Second))
					n, err := s.Read(buf)
					if err != nil {
						p.bad("C02:session-transfer-not-completed", "reader got %d of %d bytes: %v", len(got), total, err)
						return
					}
					got = append(got, buf[:n]...)
				}
			})
			wg.Wait()
			if !p.failed() && len(got) == total {
				// the stream must split into whole records
				rest := got
				for len(rest) > 0 {
					tag := rest[0]
					want := recLen
					if tag == 'C' {
						want = len(recs[2])
					}
					if len(rest) < want || !bytes.Equal(rest[:want], bytes.Repeat([]byte{tag}, want)) {
						run := 0
						for run < len(rest) && rest[run] == tag {
							run++
						}
						p.bad("C01:concurrent-writes-interleaved", "two goroutines wrote records of %d bytes to one session at the same time: at offset %d of the stream a record tagged %q is interrupted after %d bytes by bytes of another Write", recLen, len(got)-len(rest), tag, run)
						break
					}
					rest = rest[want:]
				}
			}
			p.teardown()
		}
		c.UnitBudget = 25 * time.Second
		c.Explore("two-writers-one-session/cipher="+ciph, vfPairParams(cf, 1), hx.Pick(c, 1, 2), vfPairRun(cf, 1, body))
	}
}

var _ = bytes.Equal
