//go:build verif

package kcp

import (
	"bytes"
	"fmt"
	"net"
	"strings"
	"time"

	"verif/explore"
	"verif/hx"
	"verif/vrt"
	"verif/wire"
)

// C11: sessions on one socket are isolated; one Accept per new peer.
//
// One listener and 2-3 dialled clients (distinct addresses, conversations and payload alphabets) on the
// virtual network; the fate of the first K datagrams, one injected foreign datagram (what / from where /
// when: environment choices) and the schedule are enumerated. Oracles: every accepted session's reads are
// a prefix of what the peer at ITS address and conversation wrote; every genuine peer is accepted exactly
// once (also with an accept backlog of one); foreign traffic neither appears in, stalls nor closes a session.

type vfPeer struct {
	id     int
	addr   net.Addr
	sock   *vfSock
	sess   *UDPSession
	conv   uint32
	writes []int
}

type vfC11Cfg struct {
	Cipher  string
	DS, PS  int
	Peers   int
	K       int
	Backlog int // 0 = default
	StrAddr bool
	Inject  bool
	Bound   int
	Batch   bool // Linux batch read loops on a virtual batch connection
	Hold    bool // the application accepts one peer and then stops accepting until that peer's stream is complete: the backlog stays full meanwhile
}

var vfInjections = []string{"none", "same-address-other-conv-sn5", "same-address-other-conv-sn0", "foreign-address-same-conv-replay", "foreign-address-parity", "foreign-address-short-data",
	"client-from-foreign-address", "same-address-other-conv-ack", "client-from-foreign-address-same-port", "client-from-peer-address-other-conv",
	"same-address-mixed-conv-datagram", "client-from-peer-address-mixed-conv-datagram", "client-from-peer-host-other-port", "client-from-peer-address-other-zone"}

func vfC11Run(cf vfC11Cfg) explore.RunFunc {
	return func(e *explore.Exec) explore.Verdict {
		var fail, sig string
		var mu vrt.Mutex
		bad := func(s, format string, args ...any) {
			mu.Lock()
			if fail == "" {
				sig, fail = s, fmt.Sprintf(format, args...)+fmt.Sprintf(" [virtual time %s]", time.Duration(vrt.NowNS()))
			}
			mu.Unlock()
		}
		var fates []int
		inj := "none"
		out := hx.RunVrt(e, vrt.Config{PreemptCost: 1, SwitchCost: 1, SelectCost: 1, TimerEarlyCost: -1, Horizon: 60 * time.Second, MaxSteps: 3000000}, func() {
			vfResetGlobals()
			vfBatchMode = cf.Batch
			vrt.SetPoolMode(vrt.PoolEager)
			n := vfNewNet()
			var laddr net.Addr = vfUDP(1, 9000)
			if cf.StrAddr {
				laddr = vfStrAddr("listener")
			}
			lsock := n.socket(laddr)
			fa := []int{vfDeliver, vfDrop, vfReorder, vfDup}
			n.fate = func(from, to *vfSock, data []byte, idx int) []time.Duration {
				f := vfDeliver
				if idx < cf.K {
					f = fa[vrt.Choose(len(fa), "fate")]
				}
				fates = append(fates, f)
				switch f {
				case vfDrop:
					return nil
				case vfDup:
					return []time.Duration{n.Delay, n.Delay + 2*time.Millisecond}
				case vfReorder:
					return []time.Duration{n.Delay + 25*time.Millisecond}
				}
				return []time.Duration{n.Delay}
			}
			var lis *Listener
			peers := make([]*vfPeer, cf.Peers)
			vrt.Daemons(func() {
				SystemTimedSched = NewTimedSched(1)
				bl, _ := vfBlockCrypt(cf.Cipher)
				lis, _ = ServeConn(bl, cf.DS, cf.PS, lsock)
				if cf.Backlog > 0 {
					lis.chAccepts = vrt.MakeChan[*UDPSession](cf.Backlog) // white-box: the constant 128 is not part of the property
				}
				for i := range peers {
					var a net.Addr = vfUDP(byte(10+i), 40000+i)
					if cf.StrAddr {
						a = vfStrAddr(fmt.Sprintf("client-%d", i))
					}
					p := &vfPeer{id: i, addr: a, conv: uint32(1000 + 17*i), writes: [][]int{{700, 30, 1300}, {5, 1200}, {64, 64, 64}}[i%3]}
					p.sock = n.socket(a)
					bc, _ := vfBlockCrypt(cf.Cipher)
					p.sess, _ = NewConn3(p.conv, laddr, bc, cf.DS, cf.PS, p.sock)
					p.sess.SetNoDelay(1, 10, 2, 1)
					peers[i] = p
				}
			})
			byKey := map[string]*vfPeer{}
			for _, p := range peers {
				byKey[fmt.Sprintf("%s/%d", p.addr, p.conv)] = p
			}
			sealer := vfNewSealer(cf.Cipher)
			frame := func(body []byte) []byte {
				if cf.DS > 0 {
					// a data packet with a far-away FEC id
					b := make([]byte, fecHeaderSizePlus2+len(body))
					b[0], b[1], b[2], b[3] = 0x40, 0x42, 0x0f, 0x00
					b[4] = typeData
					b[6], b[7] = byte(len(body)+2), byte((len(body)+2)>>8)
					copy(b[fecHeaderSizePlus2:], body)
					body = b
				}
				return sealer.seal(body)
			}
			var wg vrt.WaitGroup
			// writers
			for _, p := range peers {
				p := p
				wg.Add(1)
				vrt.Go(fmt.Sprintf("writer-%d", p.id), func() {
					defer wg.Done()
					off := 0
					for _, sz := range p.writes {
						if _, err := p.sess.Write(vfPayload(p.id+3, sz, off)); err != nil {
							bad("C11:write-error", "peer %d: Write failed: %v", p.id, err)
							return
						}
						off += sz
					}
				})
			}
			// acceptor: accepts until every genuine peer has been seen (extra conversations started by injected packets are
			// accepted too and must stay separate)
			accepted := map[string]int{}
			complete := map[string]bool{}
			extra := 0
			var readers vrt.WaitGroup
			wg.Add(1)
			vrt.Go("acceptor", func() {
				defer wg.Done()
				if cf.Backlog > 0 {
					vrt.Sleep(30 * time.Millisecond) // let the backlog fill up first
				}
				holdKey, held := "", false
				for {
					if holdKey != "" {
						// strangers keep the backlog full; the session just accepted must make progress all the same
						t0 := vrt.NowNS()
						for {
							mu.Lock()
							ok := complete[holdKey] || fail != ""
							mu.Unlock()
							if ok {
								break
							}
							if vrt.NowNS()-t0 > int64(5*time.Second) {
								bad("C11:session-stalled-while-the-accept-backlog-is-full", "the accepted session %s did not complete its stream within 5 s while unaccepted peers filled the accept backlog (backlog %d)", holdKey, cf.Backlog)
								return
							}
							vrt.Sleep(10 * time.Millisecond)
						}
						holdKey = ""
					}
					mu.Lock()
					need := len(peers)
					if inj == "same-address-other-conv-sn0" && !complete[fmt.Sprintf("%s/%d", peers[0].addr, peers[0].conv)] {
						need-- // peer 0's conversation may have been replaced by the injected one: its stream need not complete
					}
					done := len(complete) >= need
					if done && need < len(peers) {
						// give a replaced conversation no more than a grace period
						done = vrt.NowNS() > int64(400*time.Millisecond)
					}
					mu.Unlock()
					if done {
						return
					}
					lis.SetReadDeadline(vrt.Now().Add(200 * time.Millisecond))
					s, err := lis.AcceptKCP()
					if err != nil {
						if vfClassify(err) == "timeout" {
							continue
						}
						bad("C11:accept-error", "Accept failed: %v", err)
						return
					}
					key := fmt.Sprintf("%s/%d", s.RemoteAddr(), s.GetConv())
					mu.Lock()
					accepted[key]++
					cnt := accepted[key]
					mu.Unlock()
					p := byKey[key]
					if p == nil {
						// a conversation started by an injected packet: it must not carry any genuine peer's data
						extra++
						s := s
						readers.Add(1)
						vrt.Go("reader-extra", func() {
							defer readers.Done()
							s.SetReadDeadline(vrt.Now().Add(150 * time.Millisecond))
							buf := make([]byte, 4096)
							for {
								n, err := s.Read(buf)
								if err != nil {
									return
								}
								if !bytes.HasPrefix(buf[:n], []byte("FORGED")) {
									bad("C11:genuine-data-in-foreign-session", "the session accepted for %s (started by an injected packet) delivered %d bytes that were not in the injected packet", key, n)
									return
								}
							}
						})
						continue
					}
					// (an injected packet that starts a new conversation on peer 0's address replaces its session — allowed; the peer's
					// own retransmission of sn 0 may then start its conversation again)
					replaced := inj == "same-address-other-conv-sn0" && p.id == 0
					if cnt > 1 && !replaced {
						bad("C11:peer-accepted-twice:injection="+inj, "peer %d (%s) was handed out by Accept %d times (injection %s)", p.id, key, cnt, inj)
						return
					}
					s.SetNoDelay(1, 10, 2, 1)
					if cf.Hold && holdKey == "" && !held {
						holdKey, held = key, true
					}
					readers.Add(1)
					vrt.Go(fmt.Sprintf("reader-%d", p.id), func() {
						defer readers.Done()
						exp := vfExpected(p.id+3, p.writes)
						var got []byte
						buf := make([]byte, 4096)
						for len(got) < len(exp) {
							dl := 20 * time.Second
							if replaced {
								dl = 300 * time.Millisecond
							}
							s.SetReadDeadline(vrt.Now().Add(dl))
							n, err := s.Read(buf)
							if err != nil {
								cls := "stalled"
								if vfClassify(err) == "closed" {
									cls = "closed"
								}
								if replaced {
									return // replaced by the injected new conversation: whatever happens to this conversation is allowed
								}
								bad("C11:session-"+cls+":injection="+inj, "the session of peer %d %s after %d of %d bytes: %v", p.id, cls, len(got), len(exp), err)
								return
							}
							got = append(got, buf[:n]...)
							if len(got) > len(exp) || !bytes.Equal(got, exp[:len(got)]) {
								who := "something else"
								for _, q := range peers {
									if x := vfExpected(q.id+3, q.writes); q != p && bytes.Contains(x, got[len(got)-n:]) {
										who = fmt.Sprintf("peer %d's stream", q.id)
									}
								}
								bad("C11:foreign-bytes-in-session", "the session accepted for peer %d (%s) delivered bytes that its peer did not write: they come from %s (injection %s)", p.id, key, who, inj)
								return
							}
						}
						mu.Lock()
						complete[key] = true
						mu.Unlock()
					})
				}
			})
			// one injected datagram
			if cf.Inject {
				inj = vfInjections[vrt.Choose(len(vfInjections), "injection")]
				at := []time.Duration{1 * time.Millisecond, 8 * time.Millisecond, 16 * time.Millisecond}[vrt.Choose(3, "injection instant")]
				if inj != "none" {
					wg.Add(1)
					vrt.Go("injector", func() {
						defer wg.Done()
						vrt.Sleep(at)
						p0 := peers[0]
						foreign := vfUDP(77, 7777)
						forged := []byte("FORGED-PAYLOAD-FORGED")
						switch inj {
						case "same-address-other-conv-sn5":
							lsock.inject(p0.addr, frame(wire.EncodeSegment(wire.Seg{Conv: p0.conv + 100, Cmd: wire.CmdPush, Wnd: 32, Sn: 5, Data: forged}, -1)))
						case "same-address-other-conv-ack":
							lsock.inject(p0.addr, frame(wire.EncodeSegment(wire.Seg{Conv: p0.conv + 100, Cmd: wire.CmdAck, Wnd: 0, Sn: 1, Una: 1 << 20}, -1)))
						case "same-address-other-conv-sn0":
							// starts a new conversation: replaces peer 0's session with a fresh one (allowed); what must not happen
							// is that the forged bytes show up in peer 0's stream or that other peers are disturbed
							lsock.inject(p0.addr, frame(wire.EncodeSegment(wire.Seg{Conv: p0.conv + 100, Cmd: wire.CmdPush, Wnd: 32, Sn: 0, Data: forged}, -1)))
						case "foreign-address-same-conv-replay":
							// a segment that would continue peer 0's stream, but from another address
							lsock.inject(foreign, frame(wire.EncodeSegment(wire.Seg{Conv: p0.conv, Cmd: wire.CmdPush, Wnd: 32, Sn: 0, Data: forged}, -1)))
							lsock.inject(foreign, frame(wire.EncodeSegment(wire.Seg{Conv: p0.conv, Cmd: wire.CmdAck, Wnd: 0, Sn: 0, Una: 1 << 20}, -1)))
						case "foreign-address-parity":
							b := make([]byte, 40)
							b[4] = typeParity
							lsock.inject(foreign, sealer.seal(b))
						case "foreign-address-short-data":
							b := make([]byte, 14)
							b[4] = typeData
							lsock.inject(foreign, sealer.seal(b))
						case "client-from-foreign-address-same-port":
							// same port as the listener, different host
							st := vfUDP(99, 9000)
							p0.sock.inject(st, frame(wire.EncodeSegment(wire.Seg{Conv: p0.conv, Cmd: wire.CmdAck, Wnd: 0, Sn: 0, Una: 1 << 20}, -1)))
							p0.sock.inject(st, frame(wire.EncodeSegment(wire.Seg{Conv: p0.conv, Cmd: wire.CmdPush, Wnd: 32, Sn: 0, Data: forged}, -1)))
						case "client-from-peer-host-other-port", "client-from-peer-address-other-zone":
							// the peer's host but another port (another process there), or the peer's address in another IPv6 zone
							st := &net.UDPAddr{IP: net.IPv4(10, 0, 0, 1), Port: 9001}
							if inj == "client-from-peer-address-other-zone" {
								st = &net.UDPAddr{IP: net.IPv4(10, 0, 0, 1), Port: 9000, Zone: "eth1"}
							}
							p0.sock.inject(st, frame(wire.EncodeSegment(wire.Seg{Conv: p0.conv, Cmd: wire.CmdAck, Wnd: 0, Sn: 0, Una: 1 << 20}, -1)))
							p0.sock.inject(st, frame(wire.EncodeSegment(wire.Seg{Conv: p0.conv, Cmd: wire.CmdPush, Wnd: 32, Sn: 0, Data: forged}, -1)))
						case "client-from-peer-address-other-conv":
							// from the right address but belonging to another conversation (e.g. a stale one): the core must reject it
							p0.sock.inject(laddr, frame(wire.EncodeSegment(wire.Seg{Conv: p0.conv + 100, Cmd: wire.CmdAck, Wnd: 0, Sn: 0, Una: 1 << 20}, -1)))
							p0.sock.inject(laddr, frame(wire.EncodeSegment(wire.Seg{Conv: p0.conv + 100, Cmd: wire.CmdPush, Wnd: 32, Sn: 0, Data: forged}, -1)))
						case "same-address-mixed-conv-datagram":
							// one datagram, several segments: the first belongs to peer 0's conversation, the second to another one and
							// carries a sequence number inside peer 0's receive window — every segment must be checked, not only the first
							for k := uint32(0); k < 6; k++ {
								d := wire.EncodeSegment(wire.Seg{Conv: p0.conv, Cmd: wire.CmdWins, Wnd: 32}, -1)
								d = append(d, wire.EncodeSegment(wire.Seg{Conv: p0.conv + 100, Cmd: wire.CmdPush, Wnd: 32, Sn: k, Data: forged}, -1)...)
								lsock.inject(p0.addr, frame(d))
							}
						case "client-from-peer-address-mixed-conv-datagram":
							d := wire.EncodeSegment(wire.Seg{Conv: p0.conv, Cmd: wire.CmdWins, Wnd: 32}, -1)
							d = append(d, wire.EncodeSegment(wire.Seg{Conv: p0.conv + 100, Cmd: wire.CmdPush, Wnd: 32, Sn: 0, Data: forged}, -1)...)
							p0.sock.inject(laddr, frame(d))
						case "client-from-foreign-address":
							// the dialled session of peer 0 gets a well-formed segment of its own conversation from a stranger
							p0.sock.inject(foreign, frame(wire.EncodeSegment(wire.Seg{Conv: p0.conv, Cmd: wire.CmdAck, Wnd: 0, Sn: 0, Una: 1 << 20}, -1)))
							p0.sock.inject(foreign, frame(wire.EncodeSegment(wire.Seg{Conv: p0.conv, Cmd: wire.CmdPush, Wnd: 32, Sn: 0, Data: forged}, -1)))
						}
					})
				}
			}
			wg.Wait()
			readers.Wait()
			// peer 0 may legitimately have been replaced by the injected new conversation
			for _, p := range peers {
				key := fmt.Sprintf("%s/%d", p.addr, p.conv)
				mu.Lock()
				n, ok := accepted[key], complete[key]
				mu.Unlock()
				replaced := inj == "same-address-other-conv-sn0" && p.id == 0
				if n != 1 && !replaced {
					bad("C11:accept-count", "peer %d (%s) was accepted %d times (backlog %d)", p.id, key, n, cf.Backlog)
				}
				if !ok && !replaced {
					bad("C11:stream-incomplete", "the stream of peer %d did not arrive completely", p.id)
				}
			}
			// the dialled client must not have taken the stranger's segment: nothing is readable there
			if strings.HasPrefix(inj, "client-from-") {
				peers[0].sess.mu.Lock()
				ps := peers[0].sess.kcp.PeekSize()
				wnd := peers[0].sess.kcp.rmt_wnd
				peers[0].sess.mu.Unlock()
				if ps > 0 {
					bad("C11:client-accepts-foreign-source", "the dialled session has %d readable bytes that came from a foreign address", ps)
				}
				_ = wnd
			}
			for _, p := range peers {
				p.sess.Close()
				p.sock.Close()
			}
			lis.Close()
			lsock.Close()
			SystemTimedSched.Close()
		})
		v := explore.Verdict{}
		if out.Status == vrt.Pruned {
			v.Pruned = true
			return v
		}
		var fs strings.Builder
		for i, f := range fates {
			if i >= cf.K {
				break
			}
			fs.WriteByte("-x?r?d"[min(f, 5)])
		}
		v.Outcome = fmt.Sprintf("%s inj=%s fates=%s", out.Status, inj, fs.String())
		v.StateHash = explore.HashString(fmt.Sprintf("%s|%d|%d", v.Outcome, out.Steps, out.Now))
		v.NonTriv = len(e.Choices()) > 0
		switch {
		case out.Status == vrt.Panicked:
			v.Violation, v.Signature = out.Fail+"\n"+out.Stack, "C11:panic:"+vfPanicSite(out.Stack)
		case out.Status == vrt.Failed:
			v.Violation, v.Signature = out.Fail, "C11:fail:"+firstWords(out.Fail, 5)
		case fail != "":
			v.Violation, v.Signature = fail, sig
		case out.Status != vrt.Done:
			v.Violation, v.Signature = fmt.Sprintf("execution ended %s (injection %s): application threads blocked: %v", out.Status, inj, vfBlocked(out)), "C11:not-completed:injection="+inj
		}
		if v.Violation != "" {
			v.Detail = fmt.Sprintf("config %+v fates %v", cf, fates)
		}
		return v
	}
}

func vfBlocked(out *vrt.Outcome) []string {
	var b []string
	for _, th := range out.Threads {
		if !th.Daemon && th.State != "done" {
			b = append(b, th.Name+"("+th.Blocked+")")
		}
	}
	return b
}

func vfC11(c *hx.Ctx) {
	c.Rule("listener + 2-3 dialled clients with distinct addresses, conversations and payload alphabets; every fate vector {deliver, drop, delay, duplicate} over the first K datagrams; one injected datagram from " +
		"{same address/other conversation with sn=5, sn=0, ACK; foreign address replaying the conversation id; parity / short data without readable conversation; stranger (other host; the peer's host from another port; the peer's address in another zone) writing to the dialled client} at one of three instants; " +
		"accept backlog default or 1; UDP and non-UDP address types; cipher/FEC classes; plus every single scheduling deviation on a subset. Non-trivial = a fault, an injection or a deviation.")
	c.ByUnit = true
	K := hx.Pick(c, 3, 4)
	type u struct {
		name string
		cf   vfC11Cfg
	}
	units := []u{
		{"two-peers/inject", vfC11Cfg{Peers: 2, K: K, Inject: true}},
		{"two-peers/inject/aes-128+fec", vfC11Cfg{Cipher: "aes-128", DS: 2, PS: 1, Peers: 2, K: K - 1, Inject: true}},
		{"two-peers/inject/string-addresses", vfC11Cfg{Peers: 2, K: K - 1, Inject: true, StrAddr: true}},
		{"two-peers/inject/batch-io", vfC11Cfg{Peers: 2, K: K - 1, Inject: true, Batch: true}},
		{"two-peers/inject/batch-io/aes-128+fec", vfC11Cfg{Cipher: "aes-128", DS: 2, PS: 1, Peers: 2, K: K - 2, Inject: true, Batch: true}},
		{"three-peers/backlog=1", vfC11Cfg{Peers: 3, K: K, Backlog: 1}},
		{"three-peers/backlog=1/inject", vfC11Cfg{Peers: 3, K: K - 2, Backlog: 1, Inject: true}},
		{"three-peers/backlog=1/application-stops-accepting", vfC11Cfg{Peers: 3, K: K - 1, Backlog: 1, Hold: true}},
		{"three-peers/backlog=1/application-stops-accepting/batch-io", vfC11Cfg{Peers: 3, K: K - 2, Backlog: 1, Hold: true, Batch: true}},
		{"three-peers/aes-gcm", vfC11Cfg{Cipher: "aes-gcm", Peers: 3, K: K}},
		{"two-peers/sched", vfC11Cfg{Peers: 2, K: 0, Bound: hx.Pick(c, 1, 2)}},
		{"two-peers/sched/inject", vfC11Cfg{Peers: 2, K: 0, Inject: true, Bound: 1}},
	}
	per := (len(units) + 4 + max(c.Of, 1) - 1) / max(c.Of, 1)
	left := time.Until(c.Deadline)
	vfC11Reconnect(c, left/time.Duration(max(per, 1)))
	vfC11Saturated(c)
	for _, x := range units {
		c.UnitBudget = left / time.Duration(max(per, 1))
		c.Explore(x.name, map[string]any{"peers": x.cf.Peers, "K": x.cf.K, "backlog": x.cf.Backlog, "cipher": x.cf.Cipher, "fec": []int{x.cf.DS, x.cf.PS}, "inject": x.cf.Inject, "deviation_bound": x.cf.Bound, "batch_io": x.cf.Batch}, x.cf.Bound, vfC11Run(x.cf))
	}
}

func init() { hx.Register("C11", vfC11) }
