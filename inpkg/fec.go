//go:build verif

package kcp

import (
	"bytes"
	"encoding/binary"
	"fmt"
	"time"

	"verif/explore"
	"verif/hx"
	"verif/vrt"
)

// FEC codec harnesses: the real fecEncoder produces the packet stream; the real fecDecoder consumes it.

type vfFecPkt struct {
	seqid  uint32
	parity bool
	raw    []byte // FEC header onwards (what decode() gets)
	group  int    // index of the group in the generated stream
	pos    int    // position inside the group
}

// vfFecStream produces ngroups complete groups from a real encoder whose next id is set to base.
// sizes: payload sizes cycled over the data packets.
func vfFecStream(d, p int, base uint32, ngroups int, sizes []int) []vfFecPkt {
	return vfFecStreamGap(d, p, base, ngroups, sizes, -1)
}

// vfFecStreamGap: like vfFecStream, with an idle gap longer than the continuity limit before the last data packet of
// group gapGroup (so that group's parity is skipped; its packets are then only the data packets).
func vfFecStreamGap(d, p int, base uint32, ngroups int, sizes []int, gapGroup int) []vfFecPkt {
	enc := newFECEncoder(d, p, 0)
	enc.next = base % enc.paws
	// make the continuity test pass from the first group on (the encoder compares wall-clock gaps)
	enc.tsLatestPacket = vrt.Now().UnixMilli()
	var out []vfFecPkt
	k := 0
	for g := 0; g < ngroups; g++ {
		for i := 0; i < d; i++ {
			n := sizes[k%len(sizes)]
			k++
			b := make([]byte, fecHeaderSizePlus2+n, 1500)
			for j := 0; j < n; j++ {
				b[fecHeaderSizePlus2+j] = byte(1 + (g*31+i*7+j*3)%250)
			}
			if g == gapGroup && i == d-1 {
				vrt.Advance(time.Duration(maxFECEncodeLatency+50) * time.Millisecond)
			}
			ps := enc.encode(b, maxFECEncodeLatency)
			out = append(out, vfFecPkt{seqid: fecPacket(b).seqid(), raw: append([]byte(nil), b...), group: g, pos: i})
			for pi, x := range ps {
				out = append(out, vfFecPkt{seqid: fecPacket(x).seqid(), parity: true, raw: append([]byte(nil), x...), group: g, pos: d + pi})
			}
		}
	}
	return out
}

// original returns size|payload of a data packet (what a recovered shard must reproduce).
func (p vfFecPkt) original() []byte { return p.raw[fecHeaderSize:] }

// vfCheckRecovered verifies one recovered buffer against the missing originals of its group.
// It returns the index (pos) of the original it reproduces, or -1 and a message.
func vfCheckRecovered(r []byte, originals map[int][]byte) (int, string) {
	if len(r) < 2 {
		return -1, fmt.Sprintf("recovered buffer of %d bytes", len(r))
	}
	sz := int(binary.LittleEndian.Uint16(r))
	if sz < 2 || sz > len(r) {
		return -1, fmt.Sprintf("recovered buffer announces size %d in %d bytes", sz, len(r))
	}
	for pos, o := range originals {
		if bytes.Equal(r[:sz], o) {
			for _, z := range r[sz:] {
				if z != 0 {
					return -1, "recovered buffer carries non-zero padding after its size"
				}
			}
			return pos, ""
		}
	}
	return -1, fmt.Sprintf("recovered buffer (size %d) is not an original data packet of its group", sz)
}

// ---------------------------------------------------------------------------------------------
// C07

type vfC07Cfg struct {
	rd, rp int // when set: the decoder was created with this ratio and adopted the sender's by auto-tuning during `pre`
	d, p   int
	base   uint32
	fresh  bool // decoder has not seen the stream before (otherwise it tracked the preceding groups)
	maxLen int
	sizes  []int
}

// vfC07Seq feeds one arrival sequence (indices into the focus alphabet) to a new decoder and checks the oracle.
func vfC07Seq(cf vfC07Cfg, pre, alphabet, stream []vfFecPkt, seq []int) (sig, msg string) {
	dec := newFECDecoder(cf.d, cf.p)
	if cf.rd > 0 {
		dec = newFECDecoder(cf.rd, cf.rp)
	}
	for _, x := range pre {
		for _, r := range dec.decode(fecPacket(x.raw)) {
			defaultBufferPool.Put(r)
		}
	}
	type gstate struct {
		got       map[int]bool
		recovered map[int]bool
		complete  bool
	}
	groups := map[int]*gstate{}
	origs := map[int]map[int][]byte{}
	for _, a := range stream {
		if origs[a.group] == nil {
			origs[a.group] = map[int][]byte{}
		}
		if !a.parity {
			origs[a.group][a.pos] = a.original()
		}
	}
	for step, ai := range seq {
		pk := alphabet[ai]
		g := groups[pk.group]
		if g == nil {
			g = &gstate{got: map[int]bool{}, recovered: map[int]bool{}}
			groups[pk.group] = g
		}
		rec := dec.decode(fecPacket(pk.raw))
		dup := g.got[pk.pos]
		g.got[pk.pos] = true
		// what must come out: when the d-th distinct packet of the group arrives, exactly the data packets not received so far
		want := map[int]bool{}
		if !dup && len(g.got) == cf.d && !g.complete {
			g.complete = true
			for pos := 0; pos < cf.d; pos++ {
				if !g.got[pos] && !g.recovered[pos] {
					want[pos] = true
				}
			}
		}
		for _, r := range rec {
			pos, m := vfCheckRecovered(r, origs[pk.group])
			if pos < 0 {
				return "C07:emitted-non-original", fmt.Sprintf("step %d (packet g%d/%d): %s", step, pk.group, pk.pos, m)
			}
			// (re-emitting an original that had already been received or recovered is allowed by the statement —
			// the decoder restarts its collection after each quorum and KCP input is idempotent; what matters is
			// that everything emitted is an original of the group and that nothing missing stays missing)
			g.recovered[pos] = true
			delete(want, pos)
			defaultBufferPool.Put(r)
		}
		if len(want) > 0 {
			sg := "C07:missing-packet-not-reconstructed"
			if cf.fresh && cf.base >= 1<<31 {
				sg = "C07:missing-packet-not-reconstructed:fresh-decoder-meets-ids-in-the-upper-half"
			}
			return sg, fmt.Sprintf("step %d: %d distinct packets of group %d (ids from %d) have arrived but data packet(s) %v were not reconstructed", step, cf.d, pk.group, alphabet[0].seqid, keys(want))
		}
	}
	return "", ""
}

func keys(m map[int]bool) []int {
	var k []int
	for x := range m {
		k = append(k, x)
	}
	return k
}

func vfC07(c *hx.Ctx) {
	c.Rule("real fecEncoder -> real fecDecoder; for each (d,p), group position (incl. 2^31 and the wrap value, tracked and fresh decoder) and payload-size vector: EVERY arrival sequence of length <= n+1 over the focus group's " +
		"n=d+p packets plus two packets of the next group (all subsets, orders, duplicates, late arrivals, interleaving; for groups of more than 5 packets: sequences up to a shorter length plus EVERY arriving subset in four orders); oracle at every step: exactly the not-yet-received data packets come out when the d-th distinct packet arrives, " +
		"byte-identical with exact length and zero padding, nothing else ever. Non-trivial = sequences in which a recovery is due.")
	vfC07Session(c)
	vfC07Tuned(c)
	vfC07Huge(c)
	ratios := [][2]int{{1, 1}, {1, 2}, {2, 1}, {2, 2}, {3, 1}, {3, 2}, {3, 3}, {4, 2}, {5, 3}, {10, 3}}
	if !c.Quick() {
		ratios = append(ratios, [2]int{6, 2}, [2]int{4, 4})
	}
	idx := 0
	for _, dp := range ratios {
		d, p := dp[0], dp[1]
		size := uint32(d + p)
		paws := uint32(0xffffffff) / size * size
		bases := []struct {
			b     uint32
			fresh bool
			gap   bool // the group before the focus group had its parity skipped (idle sender)
		}{{b: 0, gap: true}, {b: 5 * size, gap: true}, {b: 0, fresh: true}, {b: 3 * size}, {b: (1<<31)/size*size - size}, {b: (1<<31)/size*size + size}, {b: paws - 2*size}, {b: paws - size},
			{b: (1<<31)/size*size + 5*size, fresh: true}, {b: paws - size, fresh: true}, {b: 7 * size, fresh: true}}
		for _, bs := range bases {
			for si, sizes := range [][]int{{1, 2, 700, 1400}, {1400, 1, 1, 5}, {30}} {
				idx++
				if c.Of > 1 && idx%c.Of != c.Shard {
					continue
				}
				if c.Quick() && si == 2 && !bs.fresh {
					continue
				}
				name := fmt.Sprintf("arrivals/d=%d,p=%d/base=%#x/fresh=%v/sizes=%v", d, p, bs.b, bs.fresh, sizes)
				if bs.gap {
					name += "/previous-group-without-parity"
				}
				if c.Skip(name) {
					continue
				}
				start := time.Now()
				cf := vfC07Cfg{d: d, p: p, base: bs.b, fresh: bs.fresh, sizes: sizes}
				n := d + p
				maxLen := n + 1
				if n > 5 {
					maxLen = hx.Pick(c, 5, 6)
				}
				if n > 8 {
					maxLen = hx.Pick(c, 3, 4) // large groups: short sequences, plus every subset in four arrival orders below
				}
				var pre []vfFecPkt
				stream := vfFecStream(d, p, bs.b, 2, sizes)
				if !bs.fresh {
					// the decoder has followed the stream up to this point: three earlier groups
					gg := -1
					if bs.gap {
						gg = 2
					}
					all := vfFecStreamGap(d, p, uint32((uint64(bs.b)+uint64(paws)-3*uint64(size))%uint64(paws)), 5, sizes, gg)
					cut := 3 * n
					if bs.gap {
						cut -= p // the gapped group has no parity packets
					}
					pre, stream = all[:cut], all[cut:]
				}
				alphabet := append(append([]vfFecPkt{}, stream[:n]...), stream[n], stream[n+d]) // focus group + first data and first parity of the next
				g0 := stream[0].group
				for i := range alphabet {
					alphabet[i].group -= g0
				}
				for i := range stream {
					stream[i].group -= g0
				}
				u := &hx.Unit{Name: name, Kind: "enum", Exhaustive: true, Params: map[string]any{"d": d, "p": p, "base": bs.b, "fresh_decoder": bs.fresh, "payload_sizes": sizes, "max_sequence_length": maxLen, "alphabet": len(alphabet)}}
				seq := make([]int, 0, maxLen)
				var rec func()
				stop := false
				rec = func() {
					if stop {
						return
					}
					if len(seq) > 0 {
						u.Executions++
						distinct := map[int]bool{}
						for _, x := range seq {
							if alphabet[x].group == 0 {
								distinct[alphabet[x].pos] = true
							}
						}
						if len(distinct) >= d {
							u.NonTrivial++
						}
						sig, msg := func() (sig, msg string) {
							defer func() {
								if r := recover(); r != nil {
									sig, msg = "C07:decoder-panic:"+vfPanicSiteOf(), fmt.Sprintf("the decoder panicked: %v", r)
								}
							}()
							return vfC07Seq(cf, pre, alphabet, stream, seq)
						}()
						if sig != "" {
							found := false
							for _, v := range u.Violations {
								if v.Signature == sig {
									v.Count++
									found = true
								}
							}
							if !found {
								var names []string
								for _, x := range seq {
									names = append(names, fmt.Sprintf("g%d/%d", alphabet[x].group, alphabet[x].pos))
								}
								u.Violations = append(u.Violations, c.NewViolation(name, u.Params, sig, msg, fmt.Sprintf("arrival sequence %v", names)))
							}
							if len(u.Violations) >= 3 {
								stop = true
							}
						}
						if len(u.Samples) < 2 && len(seq) == maxLen && u.Executions%977 == 0 {
							u.Samples = append(u.Samples, map[string]any{"arrival_sequence": append([]int{}, seq...)})
						}
					}
					if len(seq) == maxLen || time.Now().After(c.Deadline) {
						if len(seq) < maxLen {
							u.Exhaustive, u.CapHit = false, "internal deadline"
						}
						return
					}
					for a := range alphabet {
						seq = append(seq, a)
						rec()
						seq = seq[:len(seq)-1]
					}
				}
				rec()
				// large groups: every subset of the group's packets arrives (the rest is lost), in ascending, descending and
				// parity-first order, and ascending with the next group's packets in between
				if n > 5 && !stop {
					for mask := 1; mask < 1<<n && !stop; mask++ {
						if mask&0xff == 0 && time.Now().After(c.Deadline) {
							u.Exhaustive, u.CapHit = false, "internal deadline"
							break
						}
						var asc []int
						for i := 0; i < n; i++ {
							if mask>>i&1 == 1 {
								asc = append(asc, i)
							}
						}
						for order := 0; order < 4; order++ {
							seq = seq[:0]
							switch order {
							case 0:
								seq = append(seq, asc...)
							case 1:
								for i := len(asc) - 1; i >= 0; i-- {
									seq = append(seq, asc[i])
								}
							case 2:
								for _, x := range asc {
									if x >= d {
										seq = append(seq, x)
									}
								}
								for _, x := range asc {
									if x < d {
										seq = append(seq, x)
									}
								}
							case 3:
								for i, x := range asc {
									seq = append(seq, x)
									if i == len(asc)/2 {
										seq = append(seq, n, n+1)
									}
								}
							}
							u.Executions++
							if len(asc) >= d {
								u.NonTrivial++
							}
							sig, msg := func() (sig, msg string) {
								defer func() {
									if r := recover(); r != nil {
										sig, msg = "C07:decoder-panic:"+vfPanicSiteOf(), fmt.Sprintf("the decoder panicked: %v", r)
									}
								}()
								return vfC07Seq(cf, pre, alphabet, stream, seq)
							}()
							if sig != "" {
								found := false
								for _, v := range u.Violations {
									if v.Signature == sig {
										v.Count++
										found = true
									}
								}
								if !found {
									u.Violations = append(u.Violations, c.NewViolation(name, u.Params, sig, msg, fmt.Sprintf("arriving subset %v, order %d", asc, order)))
								}
								if len(u.Violations) >= 3 {
									stop = true
								}
							}
						}
					}
					seq = seq[:0]
					u.Params["subsets"] = fmt.Sprintf("all 2^%d-1 arriving subsets x 4 orders", n)
				}
				if len(u.Samples) == 0 {
					u.Samples = append(u.Samples, map[string]any{"arrival_sequence": []int{0, 1}})
				}
				if len(u.Violations) > 0 {
					u.Exhaustive = false
				}
				u.EndStatesN = u.Executions
				u.WallS = time.Since(start).Seconds()
				c.AddUnit(u)
			}
		}
	}
}

// vfC07Huge: groups of MORE than 64 packets (the decoder accepts up to 256): every subset is out of reach, so the losses
// are every burst of L consecutive packets (L in {1, 2, p-1, p}) at every position of the group, everything else arriving
// in ascending, descending and parity-first order, at the start of the id space, at the wrap value and for a fresh decoder
// in the upper half. Same oracle as the small groups (exactly the missing data packets, byte-exact, when the d-th distinct
// packet arrives; nothing that is not an original).
func vfC07Huge(c *hx.Ctx) {
	ratios := [][2]int{{60, 10}, {62, 3}, {64, 8}, {100, 28}}
	if !c.Quick() {
		ratios = append(ratios, [2]int{200, 55}, [2]int{128, 127}, [2]int{65, 1})
	}
	idx := 0
	for _, dp := range ratios {
		d, p := dp[0], dp[1]
		n := d + p
		size := uint32(n)
		paws := uint32(0xffffffff) / size * size
		for _, bs := range []struct {
			b     uint32
			fresh bool
		}{{0, true}, {paws - size, false}, {(1<<31)/size*size + size, true}} {
			idx++
			if c.Of > 1 && idx%c.Of != c.Shard {
				continue
			}
			name := fmt.Sprintf("arrivals-large-group/d=%d,p=%d/base=%#x/fresh=%v", d, p, bs.b, bs.fresh)
			if c.Skip(name) {
				continue
			}
			start := time.Now()
			sizes := []int{1, 40, 7, 90}
			cf := vfC07Cfg{d: d, p: p, base: bs.b, fresh: bs.fresh, sizes: sizes}
			var pre []vfFecPkt
			stream := vfFecStream(d, p, bs.b, 2, sizes)
			if !bs.fresh {
				all := vfFecStreamGap(d, p, uint32((uint64(bs.b)+uint64(paws)-2*uint64(size))%uint64(paws)), 4, sizes, -1)
				pre, stream = all[:2*n], all[2*n:]
			}
			alphabet := append(append([]vfFecPkt{}, stream[:n]...), stream[n], stream[n+d])
			g0 := stream[0].group
			for i := range alphabet {
				alphabet[i].group -= g0
			}
			for i := range stream {
				stream[i].group -= g0
			}
			bursts := map[int]bool{1: true, 2: true, p - 1: true, p: true}
			u := &hx.Unit{Name: name, Kind: "enum", Exhaustive: true, Params: map[string]any{"d": d, "p": p, "base": bs.b, "fresh_decoder": bs.fresh, "payload_sizes": sizes,
				"losses": "every burst of L consecutive packets, L in {1,2,p-1,p}, at every position", "orders": "ascending, descending, parity first"}}
			stop := false
			for L := 1; L <= p && !stop; L++ {
				if !bursts[L] {
					continue
				}
				for at := 0; at+L <= n && !stop; at++ {
					if time.Now().After(c.Deadline) {
						u.Exhaustive, u.CapHit = false, "internal deadline"
						stop = true
						break
					}
					var asc []int
					for i := 0; i < n; i++ {
						if i < at || i >= at+L {
							asc = append(asc, i)
						}
					}
					for order := 0; order < 3; order++ {
						var seq []int
						switch order {
						case 0:
							seq = append(seq, asc...)
						case 1:
							for i := len(asc) - 1; i >= 0; i-- {
								seq = append(seq, asc[i])
							}
						case 2:
							for _, x := range asc {
								if x >= d {
									seq = append(seq, x)
								}
							}
							for _, x := range asc {
								if x < d {
									seq = append(seq, x)
								}
							}
						}
						u.Executions++
						u.NonTrivial++
						sig, msg := func() (sig, msg string) {
							defer func() {
								if r := recover(); r != nil {
									sig, msg = "C07:decoder-panic:"+vfPanicSiteOf(), fmt.Sprintf("the decoder panicked: %v", r)
								}
							}()
							return vfC07Seq(cf, pre, alphabet, stream, seq)
						}()
						if sig != "" {
							sig += ":group-of-more-than-64-packets"
							found := false
							for _, v := range u.Violations {
								if v.Signature == sig {
									v.Count++
									found = true
								}
							}
							if !found {
								u.Violations = append(u.Violations, c.NewViolation(name, u.Params, sig, msg, fmt.Sprintf("packets %d..%d of the group lost, arrival order %d", at, at+L-1, order)))
							}
							if len(u.Violations) >= 3 {
								stop = true
							}
						}
					}
				}
			}
			u.Samples = append(u.Samples, map[string]any{"lost": "packets 10..19", "order": "descending"})
			if len(u.Violations) > 0 {
				u.Exhaustive = false
			}
			u.EndStatesN = u.Executions
			u.WallS = time.Since(start).Seconds()
			c.AddUnit(u)
		}
	}
}

// vfC07Tuned: the receiver was configured with another ratio and adopted the sender's by auto-tuning during a loss-free
// warm-up; then every arriving subset of the focus group (ascending and descending order, plus two packets of the next
// group) — at the wrap value, just before it, at 2^31 and in the middle of the id space.
func vfC07Tuned(c *hx.Ctx) {
	if c.Skip("arrivals-after-autotune") || (c.Of > 1 && c.Shard != 4%c.Of) {
		return
	}
	start := time.Now()
	u := &hx.Unit{Name: "arrivals-after-autotune", Kind: "enum", Exhaustive: true, Params: map[string]any{"sender_ratios": "2/1 3/2 4/2 5/3", "receiver_configured": "10/3 (3/2 for none of these), 1/1",
		"positions": "wrap value, one and two groups before it, 2^31, mid-space", "arrivals": "every subset, ascending and descending, plus two packets of the next group"}}
	for _, dp := range [][2]int{{2, 1}, {3, 2}, {4, 2}, {5, 3}} {
		d, p := dp[0], dp[1]
		n := d + p
		size := uint32(n)
		paws := uint32(0xffffffff) / size * size
		warm := (258+2*n)/n + 3
		for _, rdp := range [][2]int{{10, 3}, {1, 1}} {
			for _, base := range []uint32{0, paws - size, paws - 2*size, (1 << 31) / size * size, 7 * size} {
				sizes := []int{1, 2, 700, 1400}
				all := vfFecStreamGap(d, p, uint32((uint64(base)+uint64(paws)-uint64(warm)*uint64(size))%uint64(paws)), warm+2, sizes, -1)
				pre, stream := all[:warm*n], all[warm*n:]
				// did the warm-up make the decoder adopt the ratio? (otherwise this is C16's subject)
				probe := newFECDecoder(rdp[0], rdp[1])
				for _, x := range pre {
					for _, r := range probe.decode(fecPacket(x.raw)) {
						defaultBufferPool.Put(r)
					}
				}
				if probe.dataShards != d || probe.parityShards != p {
					u.Notes = append(u.Notes, fmt.Sprintf("%d/%d receiver configured %d/%d did not converge in %d groups: skipped", d, p, rdp[0], rdp[1], warm))
					continue
				}
				alphabet := append(append([]vfFecPkt{}, stream[:n]...), stream[n], stream[n+d])
				g0 := stream[0].group
				for i := range alphabet {
					alphabet[i].group -= g0
				}
				for i := range stream {
					stream[i].group -= g0
				}
				cf := vfC07Cfg{rd: rdp[0], rp: rdp[1], d: d, p: p, base: base, sizes: sizes}
				for mask := 1; mask < 1<<n; mask++ {
					var asc []int
					for i := 0; i < n; i++ {
						if mask>>i&1 == 1 {
							asc = append(asc, i)
						}
					}
					for order := 0; order < 2; order++ {
						seq := append([]int{}, asc...)
						if order == 1 {
							for i, j := 0, len(seq)-1; i < j; i, j = i+1, j-1 {
								seq[i], seq[j] = seq[j], seq[i]
							}
						}
						seq = append(seq, n, n+1)
						u.Executions++
						if len(asc) >= d {
							u.NonTrivial++
						}
						sig, msg := func() (sig, msg string) {
							defer func() {
								if r := recover(); r != nil {
									sig, msg = "C07:decoder-panic:"+vfPanicSiteOf(), fmt.Sprintf("the decoder panicked: %v", r)
								}
							}()
							return vfC07Seq(cf, pre, alphabet, stream, seq)
						}()
						if sig != "" {
							sig += ":receiver-auto-tuned"
							found := false
							for _, v := range u.Violations {
								if v.Signature == sig {
									v.Count++
									found = true
								}
							}
							if !found && len(u.Violations) < 6 {
								u.Violations = append(u.Violations, c.NewViolation("arrivals-after-autotune", u.Params, sig, msg,
									fmt.Sprintf("sender %d/%d, receiver configured %d/%d and auto-tuned, focus group at id %d, arriving positions %v (order %d)", d, p, rdp[0], rdp[1], base, asc, order)))
							}
						}
					}
				}
			}
		}
	}
	u.Samples = append(u.Samples, map[string]any{"sender": "3/2", "receiver_configured": "10/3", "focus_group": "last before the wrap", "arriving": []int{1, 2, 3}})
	u.EndStatesN = u.Executions
	if len(u.Violations) > 0 {
		u.Exhaustive = false
	}
	u.WallS = time.Since(start).Seconds()
	c.AddUnit(u)
}

// ---------------------------------------------------------------------------------------------
// C16

// vfC16Converge: a decoder configured (rd,rp) (or lazily 1/1) is fed an uninterrupted stream from a (d,p)
// encoder starting at base+residue; returns after how many packets it adopted (d,p), or -1.
func vfC16Converge(d, p, rd, rp int, base uint32, npk int) (int, *fecDecoder, []vfFecPkt) {
	dec := newFECDecoder(rd, rp)
	groups := npk/(d+p) + 3
	stream := vfFecStream(d, p, base, groups, []int{40, 3, 900})
	for i := 0; i < npk && i < len(stream); i++ {
		for _, r := range dec.decode(fecPacket(stream[i].raw)) {
			defaultBufferPool.Put(r)
		}
		if dec.dataShards == d && dec.parityShards == p && !dec.shouldTune {
			return i + 1, dec, stream[i+1:]
		}
	}
	return -1, dec, nil
}

func vfC16(c *hx.Ctx) {
	c.Rule("(a) convergence: decoder (d',p') fed an uninterrupted run from a real (d,p) encoder for every pair with d,d'<=4, p,p'<=3 (and the lazily created 1/1 decoder, and boundary pairs up to d+p=255), from every starting residue of the " +
		"sequence id and several bases incl. the wrap value; it must hold the sender's ratio after at most 258+2(d+p) packets and then recover a single loss in the next complete group; " +
		"(b) stability: with equal ratios every fate vector {deliver, drop, duplicate, swap with successor} over the first K genuine packets never sets the tuning flag or changes the ratio (checked after every packet). " +
		"(c) whole sessions whose ends are configured with different ratios, or with FEC at one end only, under every fate vector over the first K datagrams: both streams arrive intact. " +
		"Non-trivial = every case (ratios differ) resp. fate vectors with a fault.")
	// (a)
	type pair struct{ d, p, rd, rp int }
	var pairs []pair
	for d := 1; d <= 4; d++ {
		for p := 1; p <= 3; p++ {
			for rd := 1; rd <= 4; rd++ {
				for rp := 1; rp <= 3; rp++ {
					if d != rd || p != rp {
						pairs = append(pairs, pair{d, p, rd, rp})
					}
				}
			}
		}
	}
	for _, big := range [][2]int{{10, 3}, {128, 127}, {254, 1}, {1, 254}, {200, 55}} {
		pairs = append(pairs, pair{big[0], big[1], 3, 2}, pair{3, 2, big[0], big[1]})
	}
	{
		start := time.Now()
		u := &hx.Unit{Name: "convergence", Kind: "enum", Exhaustive: true, Params: map[string]any{"pairs": len(pairs), "residues": "every residue of the starting id modulo d+p", "bases": "0, 2^31, wrap value"}}
		worst := 0
		for pi, pr := range pairs {
			if c.Of > 1 && pi%c.Of != c.Shard {
				continue
			}
			size := uint32(pr.d + pr.p)
			paws := uint32(0xffffffff) / size * size
			bound := 258 + 2*(pr.d+pr.p)
			resStep := 1
			if size > 20 && c.Quick() {
				resStep = int(size) / 6
			}
			for _, base := range []uint32{0, (1 << 31) / size * size, paws - 2*size} {
				if size > 20 && base != 0 && c.Quick() {
					continue
				}
				for res := 0; res < int(size); res += resStep {
					u.Executions++
					u.NonTrivial++
					// the run starts in the middle of a group: generate from the group start and skip `res` packets
					n, dec, rest := vfC16ConvergeFrom(pr.d, pr.p, pr.rd, pr.rp, base, res, bound+int(size))
					if n > worst {
						worst = n
					}
					sig, msg := "", ""
					switch {
					case n < 0:
						sig, msg = "C16:no-convergence", fmt.Sprintf("decoder %d/%d fed an uninterrupted %d/%d stream from id %d+%d has not adopted the ratio after %d packets (holds %d/%d, tuning=%v)",
							pr.rd, pr.rp, pr.d, pr.p, base, res, bound+int(size), dec.dataShards, dec.parityShards, dec.shouldTune)
					case n > bound:
						sig, msg = "C16:convergence-too-slow", fmt.Sprintf("decoder %d/%d needed %d packets of the %d/%d stream, bound is %d", pr.rd, pr.rp, n, pr.d, pr.p, bound)
					default:
						// a single loss in the next complete group is recovered
						if m := vfC16RecoverOne(dec, rest, pr.d, pr.p); m != "" {
							sig, msg = "C16:no-recovery-after-convergence", fmt.Sprintf("decoder %d/%d converged to %d/%d after %d packets but %s", pr.rd, pr.rp, pr.d, pr.p, n, m)
						}
					}
					if sig != "" && len(u.Violations) < 4 {
						dupe := false
						for _, v := range u.Violations {
							dupe = dupe || v.Signature == sig
						}
						if !dupe {
							u.Violations = append(u.Violations, c.NewViolation("convergence", u.Params, sig, msg, ""))
						}
					}
					if len(u.Samples) < 3 && pi%37 == 5 && res == 1 {
						u.Samples = append(u.Samples, map[string]any{"sender": []int{pr.d, pr.p}, "receiver": []int{pr.rd, pr.rp}, "base": base, "residue": res, "converged_after": n, "bound": bound})
					}
				}
			}
		}
		u.Notes = append(u.Notes, fmt.Sprintf("worst convergence in this shard: %d packets", worst))
		u.EndStatesN = u.Executions
		u.Exhaustive = len(u.Violations) == 0
		u.WallS = time.Since(start).Seconds()
		c.AddUnit(u)
	}
	// (a') losses in EVERY group after convergence, up to and beyond the sender's id wrap: the stream starts so that the
	// decoder has converged a few groups before the sender wraps its ids (the decoder's own wrap value must then be the
	// sender's, not one derived from its former shard size)
	{
		start := time.Now()
		u := &hx.Unit{Name: "recovery-across-the-wrap-after-convergence", Kind: "enum", Exhaustive: true, Params: map[string]any{"pairs": len(pairs), "start": "so that convergence completes 3..4 groups before the sender's id wrap",
			"losses": "one data packet (position rotating) in every complete group from convergence to 4 groups past the wrap"}}
		for pi, pr := range pairs {
			if c.Of > 1 && pi%c.Of != c.Shard {
				continue
			}
			size := uint32(pr.d + pr.p)
			if size > 20 && c.Quick() && pi%3 != 0 {
				continue
			}
			paws := uint32(0xffffffff) / size * size
			bound := 258 + 2*(pr.d+pr.p)
			// measure how long convergence takes from a group start, then place the start accordingly
			n0, _, _ := vfC16ConvergeFrom(pr.d, pr.p, pr.rd, pr.rp, 0, 0, bound+int(size))
			if n0 < 0 {
				continue // reported by the convergence unit
			}
			groupsToConverge := uint32(n0)/size + 1
			base := paws - (groupsToConverge+4)*size
			u.Executions++
			u.NonTrivial++
			dec := newFECDecoder(pr.rd, pr.rp)
			stream := vfFecStream(pr.d, pr.p, base, int(groupsToConverge)+10, []int{40, 3, 900})
			i := 0
			for ; i < len(stream); i++ {
				for _, r := range dec.decode(fecPacket(stream[i].raw)) {
					defaultBufferPool.Put(r)
				}
				if dec.dataShards == pr.d && dec.parityShards == pr.p && !dec.shouldTune {
					i++
					break
				}
			}
			rest := stream[i:]
			for len(rest) > 0 && rest[0].pos != 0 {
				for _, r := range dec.decode(fecPacket(rest[0].raw)) {
					defaultBufferPool.Put(r)
				}
				rest = rest[1:]
			}
			g := 0
			for len(rest) >= int(size) {
				grp := rest[:size]
				rest = rest[size:]
				lostPos := g % pr.d
				g++
				got := false
				for k, pk := range grp {
					if k == lostPos {
						continue
					}
					for _, r := range dec.decode(fecPacket(pk.raw)) {
						if pos, _ := vfCheckRecovered(r, map[int][]byte{lostPos: grp[lostPos].original()}); pos == lostPos {
							got = true
						}
						defaultBufferPool.Put(r)
					}
				}
				if !got {
					sig := "C16:no-recovery-after-convergence:near-the-sender's-id-wrap"
					dupe := false
					for _, v := range u.Violations {
						dupe = dupe || v.Signature == sig
					}
					if !dupe && len(u.Violations) < 4 {
						u.Violations = append(u.Violations, c.NewViolation("recovery-across-the-wrap-after-convergence", u.Params, sig,
							fmt.Sprintf("decoder %d/%d converged to %d/%d; in the group with first id %d (the sender wraps at %d; the decoder's wrap value is %d) a single lost data packet was not recovered",
								pr.rd, pr.rp, pr.d, pr.p, grp[0].seqid, paws, dec.paws), ""))
					}
					break
				}
			}
		}
		u.EndStatesN = u.Executions
		u.Exhaustive = len(u.Violations) == 0
		u.WallS = time.Since(start).Seconds()
		c.AddUnit(u)
	}
	vfC16SessionConverge(c)
	// (b) stability under faults with equal ratios
	hx.NoCache = true
	c.ByUnit = true
	K := hx.Pick(c, 7, 9)
	for _, dp := range [][2]int{{1, 1}, {2, 1}, {3, 2}, {4, 2}, {10, 3}, {1, 3}} {
		for _, base := range []uint32{0, 1 << 31, 0xfffffff0} {
			d, p := dp[0], dp[1]
			size := uint32(d + p)
			b := base / size * size
			if base == 0xfffffff0 {
				b = uint32(0xffffffff)/size*size - size
			}
			run := func(e *explore.Exec) explore.Verdict {
				var fail string
				out := hx.RunVrt(e, vrt.Config{TimerEarlyCost: -1}, func() {
					vfResetGlobals()
					stream := vfFecStream(d, p, b, (K+2*int(size))/int(size)+2, []int{40, 3, 900})
					dec := newFECDecoder(d, p)
					feed := func(pk vfFecPkt) {
						for _, r := range dec.decode(fecPacket(pk.raw)) {
							defaultBufferPool.Put(r)
						}
						if fail == "" && (dec.shouldTune || dec.dataShards != d || dec.parityShards != p) {
							fail = fmt.Sprintf("after genuine packet id %d (parity=%v) the decoder holds %d/%d with tuning=%v although the sender uses %d/%d", pk.seqid, pk.parity, dec.dataShards, dec.parityShards, dec.shouldTune, d, p)
						}
					}
					var held *vfFecPkt
					for i, pk := range stream {
						pk := pk
						f := 0
						if i < K {
							f = vrt.Choose(4, "fate")
						}
						switch f {
						case 0:
							feed(pk)
						case 1: // drop
						case 2:
							feed(pk)
							feed(pk)
						case 3: // swap with successor
							if held == nil {
								held = &pk
								continue
							}
							feed(pk)
						}
						if held != nil && f != 3 {
							feed(*held)
							held = nil
						} else if held != nil && f == 3 && held.seqid != pk.seqid {
							feed(*held)
							held = nil
						}
					}
				})
				v := explore.Verdict{Outcome: out.Status.String(), NonTriv: len(e.Choices()) > 0}
				v.StateHash = explore.HashString(fmt.Sprint(e.Choices()))
				if out.Status == vrt.Panicked {
					v.Violation, v.Signature = out.Fail+"\n"+out.Stack, "C16:panic:"+vfPanicSite(out.Stack)
				} else if fail != "" {
					v.Violation, v.Signature = fail, "C16:genuine-packets-trigger-tuning"
				}
				return v
			}
			c.UnitBudget = 20 * time.Second
			c.Explore(fmt.Sprintf("stability/d=%d,p=%d/base=%#x", d, p, b), map[string]any{"d": d, "p": p, "base": b, "K": K, "fates": "deliver, drop, duplicate, swap with successor"}, 0, run)
		}
	}
	// (c) whole sessions whose two ends are configured with different ratios (or FEC at one end only): the stream
	// arrives intact in both directions under every fate vector over the first K datagrams
	c.ByUnit = true
	Ks := hx.Pick(c, 4, 5)
	for _, m := range [][4]int{{2, 1, 3, 2}, {3, 2, 2, 1}, {2, 1, 0, 0}, {0, 0, 2, 1}, {1, 1, 10, 3}, {4, 2, 2, 2}, {2, 2, 2, 1}} {
		for _, ciph := range []string{"", "aes-128"} {
			if ciph != "" && (c.Quick() || m[0] == 0) && m != [4]int{2, 1, 3, 2} {
				continue
			}
			cf := vfPairCfg{Cipher: ciph, DS: m[0], PS: m[1], SDS: m[2], SPS: m[3], Stream: true, NoDelay: [4]int{1, 10, 2, 1}, Writes: []int{700, 1300, 30, 2900, 5, 1200}, WritesBack: []int{900, 40, 1500},
				ReadBuf: 4096, Pool: vrt.PoolEager, Preempt: 1, Switch: 1, Select: 1, Wire: false, Owners: []string{"C16:", "C01:", "C02:", "C15:"}, K: Ks, HorizonS: 60}
			c.UnitBudget = 12 * time.Second
			c.Explore(fmt.Sprintf("session-mismatch/client=%d,%d/listener=%d,%d/cipher=%s", m[0], m[1], m[2], m[3], ciph), vfPairParams(cf, 0), 0, vfPairRun(cf, 0, vfStdBody))
		}
	}
	c.ByUnit = false
}

// vfC16ConvergeFrom starts the run `res` packets into a group.
func vfC16ConvergeFrom(d, p, rd, rp int, base uint32, res, npk int) (int, *fecDecoder, []vfFecPkt) {
	dec := newFECDecoder(rd, rp)
	groups := (npk+res)/(d+p) + 4
	stream := vfFecStream(d, p, base, groups, []int{40, 3, 900})[res:]
	for i := 0; i < npk && i < len(stream); i++ {
		for _, r := range dec.decode(fecPacket(stream[i].raw)) {
			defaultBufferPool.Put(r)
		}
		if dec.dataShards == d && dec.parityShards == p && !dec.shouldTune {
			return i + 1, dec, stream[i+1:]
		}
	}
	return -1, dec, nil
}

// vfC16RecoverOne drops the first data packet of the next complete group and expects it back.
func vfC16RecoverOne(dec *fecDecoder, rest []vfFecPkt, d, p int) string {
	// skip to the next group start
	i := 0
	for i < len(rest) && rest[i].pos != 0 {
		for _, r := range dec.decode(fecPacket(rest[i].raw)) {
			defaultBufferPool.Put(r)
		}
		i++
	}
	if i+d+p > len(rest) {
		return ""
	}
	grp := rest[i : i+d+p]
	lost := grp[0]
	got := false
	for _, pk := range grp[1:] {
		for _, r := range dec.decode(fecPacket(pk.raw)) {
			if pos, _ := vfCheckRecovered(r, map[int][]byte{0: lost.original()}); pos == 0 {
				got = true
			}
			defaultBufferPool.Put(r)
		}
	}
	if !got {
		return fmt.Sprintf("a single lost data packet (id %d) of the next group was not recovered", lost.seqid)
	}
	return ""
}

func init() {
	hx.Register("C07", vfC07)
	hx.Register("C16", vfC16)
}
