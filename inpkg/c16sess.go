//go:build verif

package kcp

import (
	"bytes"
	"fmt"
	"time"

	"verif/hx"
	"verif/vrt"
	"verif/wire"
)

// C16 at the consumer: a session whose own FEC setting differs from its peer's (or that was created WITHOUT FEC) must
// adopt the peer's ratio from the traffic and from then on recover losses. A dialled session receives, by hand, an
// uninterrupted stream built with the real encoder at the peer's ratio (long enough to converge), then groups with one
// data packet withheld each; there is no peer behind the socket, so nothing is ever retransmitted: the application can
// read the whole stream only if the session's decoder converged and reconstructs. Receiver settings {no FEC, 2/1, 10/3}
// x sender ratios {3/2, 10/3, 2/2, 1/1} x cipher classes; the withheld position rotates through the group.
func vfC16SessionConverge(c *hx.Ctx) {
	if c.Skip("session-convergence") || (c.Of > 1 && c.Shard != 5%c.Of) {
		return
	}
	start := time.Now()
	u := &hx.Unit{Name: "session-convergence", Kind: "enum", Exhaustive: true, Params: map[string]any{"receiver": "no FEC, 2/1, 10/3", "sender": "3/2, 10/3, 2/2, 1/1", "ciphers": []string{"", "aes-128"},
		"history": "258+3(d+p) packets without loss, then 2(d+p)+2 groups with one data packet withheld each (position rotating)"}}
	viol := func(sig, msg string) {
		for _, v := range u.Violations {
			if v.Signature == sig {
				v.Count++
				return
			}
		}
		if len(u.Violations) < 6 {
			u.Violations = append(u.Violations, c.NewViolation("session-convergence", u.Params, sig, msg, ""))
		}
	}
	for _, rcv := range [][2]int{{0, 0}, {2, 1}, {10, 3}} {
		for _, snd := range [][2]int{{3, 2}, {10, 3}, {2, 2}, {1, 1}} {
			if rcv == snd {
				continue
			}
			for _, ciph := range []string{"", "aes-128"} {
				if time.Now().After(c.Deadline) {
					u.Exhaustive, u.CapHit = false, "internal deadline"
					break
				}
				d, p := snd[0], snd[1]
				n := d + p
				u.Executions++
				u.NonTrivial++
				where := fmt.Sprintf("session created with FEC %d/%d, peer sends %d/%d, cipher=%q", rcv[0], rcv[1], d, p, ciph)
				var got, want []byte
				ratio := [2]int{-1, -1}
				out := vrt.Run(vrt.Config{Chooser: vfDefaultChooser{}, TimerEarlyCost: -1, Horizon: 120 * time.Second, MaxSteps: 6000000}, func() {
					vfResetGlobals()
					vrt.SetPoolMode(vrt.PoolEager)
					nw := vfNewNet()
					raddr, laddr := vfUDP(1, 9000), vfUDP(2, 40000)
					sock := nw.socket(laddr)
					var sess *UDPSession
					vrt.Daemons(func() {
						SystemTimedSched = NewTimedSched(1)
						bc, _ := vfBlockCrypt(ciph)
						sess, _ = NewConn3(vfConv, raddr, bc, rcv[0], rcv[1], sock)
						sess.SetNoDelay(1, 10, 2, 1)
					})
					sealer := vfNewSealer(ciph)
					enc := newFECEncoder(d, p, 0)
					buf := make([]byte, 4096)
					drain := func(wait time.Duration) {
						for len(got) < len(want) {
							sess.SetReadDeadline(vrt.Now().Add(wait))
							k, err := sess.Read(buf)
							if err != nil {
								return
							}
							got = append(got, buf[:k]...)
						}
					}
					sn := uint32(0)
					warm := (258+3*n)/n + 1
					lossy := 2*n + 2
					for g := 0; g < warm+lossy; g++ {
						lost := -1
						if g >= warm {
							lost = (g - warm) % d
						}
						var pkts [][]byte
						for i := 0; i < d; i++ {
							pl := vfPayload(3, 10+(g+i)%7, len(want))
							want = append(want, pl...)
							seg := wire.EncodeSegment(wire.Seg{Conv: vfConv, Cmd: wire.CmdPush, Wnd: 32, Sn: sn, Data: pl}, -1)
							sn++
							b := make([]byte, fecHeaderSizePlus2+len(seg), 1500)
							copy(b[fecHeaderSizePlus2:], seg)
							ps := enc.encode(b, 1000)
							if i != lost {
								pkts = append(pkts, sealer.seal(b))
							}
							for _, x := range ps {
								pkts = append(pkts, sealer.seal(x))
							}
						}
						for _, b := range pkts {
							sock.inject(raddr, b)
						}
						drain(3 * time.Millisecond)
						if g == warm-1 {
							sess.mu.Lock()
							if sess.fecDecoder != nil {
								ratio = [2]int{sess.fecDecoder.dataShards, sess.fecDecoder.parityShards}
							}
							sess.mu.Unlock()
						}
					}
					drain(500 * time.Millisecond)
					sess.Close()
					sock.Close()
					SystemTimedSched.Close()
				})
				switch {
				case out.Status == vrt.Panicked:
					viol("C16:session-convergence:panic:"+vfPanicSite(out.Stack), where+": "+out.Fail)
				case out.Status == vrt.Failed:
					viol("C16:session-convergence:"+firstWords(out.Fail, 5), where+": "+out.Fail)
				case out.Status != vrt.Done:
					viol("C16:session-convergence:"+out.Status.String(), where+": execution ended "+out.Status.String())
				case ratio != snd:
					viol("C16:session-does-not-adopt-the-peer's-ratio", fmt.Sprintf("%s: after %d loss-free packets the session's decoder holds %d/%d", where, (258+3*n)/n*n+n, ratio[0], ratio[1]))
				case !bytes.Equal(got, want):
					viol("C16:session-does-not-recover-after-convergence", fmt.Sprintf("%s: the application read %d of %d bytes (nothing is ever retransmitted here: a withheld packet can only come from the decoder)", where, len(got), len(want)))
				}
			}
		}
	}
	u.Samples = append(u.Samples, map[string]any{"receiver": "no FEC", "sender": "10/3", "cipher": "aes-128"})
	u.EndStatesN = u.Executions
	if len(u.Violations) > 0 {
		u.Exhaustive = false
	}
	u.WallS = time.Since(start).Seconds()
	c.AddUnit(u)
}
