//go:build verif

package kcp

import (
	"bytes"
	"fmt"
	"io"
	"strings"
	"time"

	"verif/explore"
	"verif/hx"
	"verif/vrt"
)

// ---------------------------------------------------------------------------------------------
// C09: datagrams follow the documented frame layout; nonces never repeat

func vfC09(c *hx.Ctx) {
	c.Rule("every datagram handed to the virtual PacketConn by either end of a session pair, for every fate vector over the first K datagrams, is decoded by an independent decoder written from the README " +
		"(cipher layer, CRC/tag, FEC header, size field, KCP segments, no trailing bytes); FEC type vs position, id order, Reed-Solomon parity of complete groups, nonce/datagram uniqueness; " +
		"the byte stream reassembled from the wire alone must equal what was written. Non-trivial = a fate vector with at least one fault.")
	c.Assume("contents and keys are fixed patterns; the README and the wireshark dissector are the wire specification")
	K := hx.Pick(c, 5, 6)
	c.ByUnit = true
	grid := vfPairGrid(true)
	var sel []vfNamedPair
	for i, g := range grid {
		if c.Quick() && i%2 == 1 {
			continue
		}
		sel = append(sel, g)
	}
	per := (len(sel) + max(c.Of, 1) - 1) / max(c.Of, 1)
	left := time.Until(c.Deadline) - 15*time.Second
	for i, g := range sel {
		cf := g.cfg
		cf.K, cf.Wire, cf.Owners = K, true, []string{"C09:"}
		if i%3 == 0 {
			cf.GapAfter, cf.GapMs = 1, 650 // an idle gap longer than the FEC continuity limit after the first write
		}
		if i%4 == 1 {
			cf.Mtu = 600
			for j := range cf.Writes {
				cf.Writes[j] = min(cf.Writes[j], 700)
			}
		}
		body := func(p *vfPair) {
			p.traffic()
			if !p.failed() {
				p.drainBacklog()
			}
			// the stream reassembled from the wire alone equals what was written
			want := vfExpected(0, cf.Writes)
			if got := p.wireC2S.stream(); !bytes.Equal(got, want) {
				p.bad("C09:wire-stream-differs", "the byte stream reassembled from the client's datagrams (%d bytes) differs from the %d bytes written (first difference at %d)", len(got), len(want), vfFirstDiff(got, want))
			}
			if want := vfExpected(1, cf.WritesBack); len(want) > 0 {
				if got := p.wireS2C.stream(); !bytes.Equal(got, want) {
					p.bad("C09:wire-stream-differs", "the byte stream reassembled from the listener's datagrams differs from what was written")
				}
			}
			p.teardown()
		}
		c.UnitBudget = left / time.Duration(max(per, 1))
		c.Explore("wire/"+g.name+fmt.Sprintf("/mtu=%d", cf.Mtu), vfPairParams(cf, 0), 0, vfPairRun(cf, 0, body))
	}
	// the FEC id cycle across the wrap value, with and without an idle gap (skipped parity) in the groups around it
	for _, fec := range [][2]int{{2, 1}, {3, 2}, {10, 3}} {
		for back := 1; back <= 2; back++ {
			for _, gap := range []int{0, 1, 2, 3} {
				cf := vfPairCfg{DS: fec[0], PS: fec[1], SDS: -1, Stream: true, NoDelay: [4]int{1, 10, 2, 1}, Writes: []int{30, 31, 32, 33, 34, 35, 36, 37}, ReadBuf: 4096, Pool: vrt.PoolEager,
					Preempt: 1, Switch: 1, Select: 1, Wire: true, Owners: []string{"C09:"}, K: 2, Fates: []int{vfDeliver, vfDrop}, EncBack: back, GapAfter: gap, GapMs: 650, HorizonS: 60}
				if fec[0] == 10 {
					for i := 0; i < 14; i++ {
						cf.Writes = append(cf.Writes, 20+i)
					}
				}
				body := func(p *vfPair) {
					p.traffic()
					if !p.failed() {
						p.drainBacklog()
					}
					if want := vfExpected(0, cf.Writes); !bytes.Equal(p.wireC2S.stream(), want) {
						p.bad("C09:wire-stream-differs", "the byte stream reassembled from the wire differs from what was written (FEC ids crossing the wrap value)")
					}
					p.teardown()
				}
				c.UnitBudget = 10 * time.Second
				c.Explore(fmt.Sprintf("wire-wrap/fec=%d,%d/encoder-%d-groups-before-wrap/idle-gap-after-write-%d", fec[0], fec[1], back, gap), vfPairParams(cf, 0), 0, vfPairRun(cf, 0, body))
			}
		}
	}
	// out-of-band packets share the FEC header: layout, reserved id, no id consumed, parity over data only
	for _, ciph := range []string{"", "aes-128", "aes-gcm"} {
		cf := vfPairCfg{Cipher: ciph, DS: 2, PS: 1, SDS: -1, Stream: true, NoDelay: [4]int{1, 10, 2, 1}, Writes: []int{300, 1200, 50, 700}, WritesBack: []int{100}, ReadBuf: 4096, Pool: vrt.PoolEager,
			Preempt: 1, Switch: 1, Select: 1, Wire: true, Owners: []string{"C09:"}, K: hx.Pick(c, 4, 5), HorizonS: 60}
		body := func(p *vfPair) {
			var wg vrt.WaitGroup
			wg.Add(2)
			vrt.Go("traffic", func() { defer wg.Done(); p.traffic() })
			vrt.Go("oob", func() {
				defer wg.Done()
				max := p.client.GetOOBMaxSize()
				for i, L := range []int{0, 5, max} {
					p.client.SendOOB(vfPayload(8, L, i))
					vrt.Sleep(2 * time.Millisecond)
					p.mu.Lock()
					srv := p.server
					p.mu.Unlock()
					if srv != nil {
						srv.SendOOB(vfPayload(9, 17+i, i))
					}
				}
			})
			wg.Wait()
			if !p.failed() {
				p.drainBacklog()
			}
			if want := vfExpected(0, cf.Writes); !bytes.Equal(p.wireC2S.stream(), want) {
				p.bad("C09:wire-stream-differs", "the byte stream reassembled from the wire differs from what was written (out-of-band packets interleaved)")
			}
			p.teardown()
		}
		c.UnitBudget = 10 * time.Second
		c.Explore("wire-oob/cipher="+ciph, vfPairParams(cf, 0), 0, vfPairRun(cf, 0, body))
	}
	// the Linux batch transmit path: whole batches, short counts, and once a short count followed by an error (what the
	// kernel accepted is on the wire: nothing may be emitted twice)
	for _, bm := range []int{1, 2, 3} {
		for _, cl := range [][3]any{{"aes-128", 2, 1}, {"aes-gcm", 0, 0}, {"", 3, 2}} {
			cf := vfPairCfg{Cipher: cl[0].(string), DS: cl[1].(int), PS: cl[2].(int), SDS: -1, Stream: true, NoDelay: [4]int{1, 10, 2, 1}, Writes: []int{3000, 1200, 50, 2800}, WritesBack: []int{100, 2000}, ReadBuf: 4096,
				Pool: vrt.PoolEager, Preempt: 1, Switch: 1, Select: 1, Wire: true, Owners: []string{"C09:"}, K: hx.Pick(c, 2, 3), HorizonS: 30, Batch: bm}
			body := func(p *vfPair) {
				if bm == 3 {
					// the injected error ends the session's ability to write: run the traffic with deadlines and only judge the wire
					// (the datagrams of the failed batch never reach the wire, so the FEC ids seen there have a gap: only layout and
					// uniqueness are judged)
					p.cfg.Owners = []string{"C09:identical-datagrams", "C09:nonce-reused", "C09:frame-malformed", "C09:fec-type-position", "C09:fec-seqid-range"}
					var wg vrt.WaitGroup
					wg.Add(1)
					vrt.Go("writer", func() {
						defer wg.Done()
						off := 0
						for _, n := range cf.Writes {
							p.client.SetWriteDeadline(vrt.Now().Add(300 * time.Millisecond))
							if _, err := p.client.Write(vfPayload(0, n, off)); err != nil {
								return
							}
							off += n
						}
					})
					wg.Wait()
					vrt.Idle(300 * time.Millisecond)
					p.teardown()
					return
				}
				vfStdBody(p)
			}
			c.UnitBudget = 8 * time.Second
			c.Explore(fmt.Sprintf("wire-batch-io/mode=%d/cipher=%s/fec=%d,%d", bm, cf.Cipher, cf.DS, cf.PS), vfPairParams(cf, 0), 0, vfPairRun(cf, 0, body))
		}
	}
	vfC09SharedCipher(c)
	vfC09EntropyConcurrent(c)
	// nonce freshness of the real entropy source
	if c.Shard == 0 && !c.Skip("entropy") {
		start := time.Now()
		u := &hx.Unit{Name: "entropy", Kind: "enum", Exhaustive: true, Params: map[string]any{"draws": 1 << 20, "source": "NewEntropy() (the default)"}}
		r := NewEntropy()
		seen := make(map[[16]byte]struct{}, 1<<20)
		var b [16]byte
		for i := 0; i < 1<<20; i++ {
			r.Read(b[:])
			if _, dup := seen[b]; dup {
				u.Violations = append(u.Violations, c.NewViolation("entropy", u.Params, "C09:entropy-repeats", fmt.Sprintf("the default entropy source repeated a 16-byte nonce after %d draws", i), ""))
				break
			}
			seen[b] = struct{}{}
		}
		u.Executions, u.NonTrivial, u.EndStatesN = 1<<20, 1<<20, int64(len(seen))
		u.Samples = append(u.Samples, map[string]any{"draw": fmt.Sprintf("%x", b)})
		u.WallS = time.Since(start).Seconds()
		c.AddUnit(u)
	}
}

// vfC09EntropyConcurrent: several sessions draw nonces from the one process-wide source at the same time. Every
// interleaving of 3 threads x 2 draws (preemption bound, with an extra scheduling point after every Unlock so that code
// which touches the generator's state after releasing its lock is exposed) — all draws must be distinct, for both
// generator implementations and for fillRand on the package-level source.
func vfC09EntropyConcurrent(c *hx.Ctx) {
	vfEntropyConcurrent(c, "C09:entropy-repeats:concurrent-draws")
}

// vfEntropyConcurrent is shared by C09 (nonce freshness) and C14 (the generator state is shared mutable state: an access
// outside its lock is a data race even where ThreadSanitizer cannot see it because the other access is in assembly).
func vfEntropyConcurrent(c *hx.Ctx, dupSig string) {
	for _, src := range []string{"aes", "chacha8", "default-via-fillRand"} {
		src := src
		run := func(e *explore.Exec) explore.Verdict {
			var draws [][16]byte
			var mu vrt.Mutex
			out := hx.RunVrt(e, vrt.Config{PreemptCost: 1, TimerEarlyCost: -1, UnlockPoints: true}, func() {
				var r io.Reader
				switch src {
				case "aes":
					r = NewEntropyAES()
				case "chacha8":
					r = NewEntropyChacha8()
				default:
					SetEntropy(NewEntropy())
				}
				var wg vrt.WaitGroup
				for t := 0; t < 3; t++ {
					wg.Add(1)
					vrt.Go(fmt.Sprintf("session%d", t), func() {
						defer wg.Done()
						for i := 0; i < 2; i++ {
							var b [16]byte
							if r != nil {
								r.Read(b[:])
							} else {
								fillRand(b[:])
							}
							mu.Lock()
							draws = append(draws, b)
							mu.Unlock()
						}
					})
				}
				wg.Wait()
			})
			v := explore.Verdict{Outcome: out.Status.String(), NonTriv: e.Cost() > 0, Pruned: out.Status == vrt.Pruned}
			if out.Status == vrt.Panicked {
				v.Violation, v.Signature = out.Fail+"\n"+out.Stack, dupSig[:4]+"entropy-concurrent:panic"
				return v
			}
			seen := map[[16]byte]bool{}
			for _, d := range draws {
				if seen[d] {
					v.Violation, v.Signature = fmt.Sprintf("two concurrent draws from the %s source returned the same 16 bytes %x (of %d draws): the generator state is read or written outside its lock", src, d, len(draws)), dupSig
				}
				seen[d] = true
				if d == ([16]byte{}) {
					v.Violation, v.Signature = fmt.Sprintf("a draw from the %s source returned all zero bytes", src), dupSig[:4]+"entropy-zero"
				}
			}
			return v
		}
		c.UnitBudget = 10 * time.Second
		c.Explore("entropy-concurrent/"+src, map[string]any{"threads": 3, "draws_per_thread": 2, "source": src, "scheduling_point_after_unlock": true}, hx.Pick(c, 2, 3), run)
	}
}

func vfExpected(end int, sizes []int) []byte {
	var exp []byte
	off := 0
	for _, n := range sizes {
		exp = append(exp, vfPayload(end, n, off)...)
		off += n
	}
	return exp
}

// ---------------------------------------------------------------------------------------------
// C15: Close releases goroutines and callbacks; pooled buffers have one owner

func vfC15(c *hx.Ctx) {
	c.Rule("session pair mid-history; closer threads for the client, the accepted session, the listener (in every order) lurk and may be released at ANY scheduling point (one deviation each) or run " +
		"at chosen virtual instants; afterwards the system runs to quiescence. Oracle: every library goroutine has exited, no timer is left once the scheduler is closed, the pool sanitizer " +
		"(double recycle, foreign buffer, write-after-recycle via poison, in quarantine and eager-reuse modes) stays silent. Non-trivial = Close landed before the transfer had finished.")
	c.ByUnit = true
	grid := vfPairGrid(false)
	bound := hx.Pick(c, 1, 2)
	type variant struct {
		name  string
		order []int // 0 client, 1 server session, 2 listener
		pool  vrt.PoolMode
	}
	variants := []variant{
		{"client-first/quarantine/dup=2", []int{0, 1, 2}, vrt.PoolQuarantine},
		{"client-first/quarantine", []int{0, 1, 2}, vrt.PoolQuarantine},
		{"server-first/eager", []int{1, 0, 2}, vrt.PoolEager},
		{"listener-first/quarantine", []int{2, 0, 1}, vrt.PoolQuarantine},
		{"client-only/eager", []int{0}, vrt.PoolEager},
	}
	n := 0
	for gi := range grid {
		if c.Quick() && gi%3 != 0 {
			continue
		}
		n += len(variants)
	}
	per := (n + max(c.Of, 1) - 1) / max(c.Of, 1)
	left := time.Until(c.Deadline)
	for gi, g := range grid {
		if c.Quick() && gi%3 != 0 {
			continue
		}
		for _, vr := range variants {
			vr := vr
			cf := g.cfg
			cf.Pool = vr.pool
			if strings.Contains(vr.name, "dup=2") {
				cf.Dup = 2
			}
			cf.K = 2
			cf.Fates = []int{vfDeliver, vfDrop}
			cf.Owners = []string{"C15:"}
			cf.HorizonS = 30
			body := func(p *vfPair) {
				var closers vrt.WaitGroup
				// the instant around which the first close lands: an environment choice over the transfer's timeline
				at := []time.Duration{200 * time.Millisecond, 0, 4 * time.Millisecond, 6 * time.Millisecond, 11 * time.Millisecond, 16 * time.Millisecond, 40 * time.Millisecond}[vrt.Choose(7, "close instant")]
				for i, who := range vr.order {
					i, who := i, who
					closers.Add(1)
					vrt.Go(fmt.Sprintf("closer-%d", who), func() {
						defer closers.Done()
						vrt.Lurk(at + time.Duration(i)*time.Millisecond)
						switch who {
						case 0:
							p.client.Close()
						case 1:
							p.mu.Lock()
							s := p.server
							p.mu.Unlock()
							if s != nil {
								s.Close()
							}
						case 2:
							p.listener.Close()
							p.lsock.Close()
						}
					})
				}
				// traffic threads tolerate the close: errors are expected, so own nothing but C15
				vrt.Go("traffic", func() { p.traffic() })
				closers.Wait()
				vrt.Idle(3 * time.Second)
				p.teardown()
			}
			c.UnitBudget = left / time.Duration(max(per, 1))
			p := vfPairParams(cf, bound)
			p["close_order"], p["pool_mode"] = vr.order, vr.name
			c.Explore("close/"+vr.name+"/"+g.name, p, bound, vfPairRun(cf, bound, body))
		}
	}
	vfC15Backlog(c)
	vfC15EventUnits(c)
}

// vfC15Backlog: more new peers than the accept backlog holds (white-box backlog of 1 or 2), late acceptor, then everything
// is closed: sessions the listener created must not outlive it, whether they were accepted, queued or turned away.
func vfC15Backlog(c *hx.Ctx) {
	for _, bl := range []int{1, 2, -1, -2} {
		// negative: the listener is closed by a thread that may be released at ANY scheduling point while the new peers'
		// first packets are being processed (also between a session's registration and its hand-over to the backlog)
		backlog, lurking := bl, false
		if bl < 0 {
			backlog, lurking = -bl, true
		}
		run := func(e *explore.Exec) explore.Verdict {
			var fail, sig string
			out := hx.RunVrt(e, vrt.Config{PreemptCost: 1, SwitchCost: 1, SelectCost: 1, TimerEarlyCost: -1, Horizon: 30 * time.Second, MaxSteps: 3000000}, func() {
				vfResetGlobals()
				vrt.SetPoolMode(vrt.PoolQuarantine)
				n := vfNewNet()
				laddr := vfUDP(1, 9000)
				lsock := n.socket(laddr)
				n.fate = func(from, to *vfSock, data []byte, idx int) []time.Duration {
					if idx < 3 && vrt.Choose(2, "fate") == 1 {
						return nil
					}
					return []time.Duration{n.Delay}
				}
				var lis *Listener
				var clients []*UDPSession
				var socks []*vfSock
				vrt.Daemons(func() {
					SystemTimedSched = NewTimedSched(1)
					lis, _ = ServeConn(nil, 0, 0, lsock)
					lis.chAccepts = vrt.MakeChan[*UDPSession](backlog)
					for i := 0; i < 4; i++ {
						sk := n.socket(vfUDP(byte(20+i), 41000+i))
						s, _ := NewConn3(uint32(500+i), laddr, nil, 0, 0, sk)
						s.SetNoDelay(1, 10, 2, 1)
						clients, socks = append(clients, s), append(socks, sk)
					}
				})
				var lc vrt.WaitGroup
				if lurking {
					lc.Add(1)
					vrt.Go("listener-closer", func() {
						defer lc.Done()
						vrt.Lurk(40 * time.Millisecond)
						lis.Close()
					})
				}
				for i, s := range clients {
					s.Write([]byte(fmt.Sprintf("hello from client %d", i)))
				}
				accepted := []*UDPSession{}
				nacc := vrt.Choose(4, "sessions accepted before shutdown")
				vrt.Sleep(60 * time.Millisecond)
				for i := 0; i < nacc; i++ {
					lis.SetReadDeadline(vrt.Now().Add(100 * time.Millisecond))
					if s, err := lis.AcceptKCP(); err == nil {
						accepted = append(accepted, s)
					}
				}
				for _, s := range clients {
					s.Close()
				}
				for _, s := range accepted {
					s.Close()
				}
				lc.Wait()
				lis.Close()
				lsock.Close()
				for _, sk := range socks {
					sk.Close()
				}
				vrt.Idle(2 * time.Second)
				leakedBacklog := 0
				for lis.chAccepts.Len() > 0 {
					var s *UDPSession
					if vrt.Select(true, lis.chAccepts.RecvCase(&s, nil)) != 0 || s == nil {
						break
					}
					if !s.isClosed() {
						leakedBacklog++
						s.Close()
					}
				}
				if leakedBacklog > 0 {
					vrt.Idle(2 * time.Second)
				}
				if n := vrt.ArmedTimers(); n > 0 {
					sig, fail = "C15:scheduled-callback-left-after-close:sessions-beyond-the-accept-backlog", fmt.Sprintf("%d timer(s) still armed after all clients, accepted sessions, the listener and the sockets were closed (backlog %d, 4 new peers, %d accepted)", n, backlog, len(accepted))
				}
				SystemTimedSched.Close()
				vrt.Idle(2 * time.Second)
				var left []string
				for _, th := range vrt.Threads() {
					if th.Daemon && th.State != "done" {
						left = append(left, th.Name)
					}
				}
				if len(left) > 0 && fail == "" {
					sig, fail = "C15:goroutine-left-after-close:sessions-beyond-the-accept-backlog", fmt.Sprintf("library goroutines still alive after everything was closed: %v", left)
				}
				if leakedBacklog > 0 && fail == "" {
					sig, fail = "C15:unaccepted-session-leaked-at-listener-close", fmt.Sprintf("%d session(s) were still in the accept backlog when the listener was closed: nothing closes them", leakedBacklog)
				}
				if msg := vrt.PoolVerify(); msg != "" && fail == "" {
					sig, fail = "C15:"+firstWords(msg, 5), msg
				}
			})
			v := explore.Verdict{Outcome: out.Status.String(), NonTriv: true, Pruned: out.Status == vrt.Pruned}
			v.StateHash = explore.HashString(fmt.Sprint(e.Choices()))
			switch {
			case out.Status == vrt.Panicked:
				v.Violation, v.Signature = out.Fail+"\n"+out.Stack, "C15:panic:"+vfPanicSite(out.Stack)
			case out.Status == vrt.Failed:
				v.Violation, v.Signature = out.Fail, "C15:"+firstWords(out.Fail, 5)
			case fail != "":
				v.Violation, v.Signature = fail, sig
			case out.Status != vrt.Done:
				v.Violation, v.Signature = "execution ended "+out.Status.String(), "C15:backlog:"+out.Status.String()
			}
			return v
		}
		c.UnitBudget = 15 * time.Second
		name, bound := fmt.Sprintf("backlog-overflow/backlog=%d", backlog), hx.Pick(c, 0, 1)
		if lurking {
			name, bound = fmt.Sprintf("backlog-overflow/backlog=%d/listener-closed-at-any-point", backlog), hx.Pick(c, 1, 2)
		}
		c.Explore(name, map[string]any{"backlog": backlog, "new_peers": 4, "accepted_before_shutdown": "0..3", "fates": "first 3 datagrams deliver/drop", "listener_closer_lurks": lurking}, bound, run)
	}
}

// ---------------------------------------------------------------------------------------------
// C10: no datagram exceeds the configured MTU; accepted MTUs are safe

var vfMtuAlphabet = []int{-1, 0, 1, 24, 25, 49, 50, 51, 52, 53, 60, 61, 576, 1399, 1400, 1401, 1499, 1500, 1501, 65535, 1<<31 - 1}

func vfC10(c *hx.Ctx) {
	c.Rule("(i) len of every buffer at WriteTo <= session MTU for session pairs over MTU x cipher x FEC overhead classes and all fate vectors; (ii) SetMtu(v) for v in a boundary alphabet " +
		"on the session at every position of a traffic history (before traffic, data queued, in flight, after) and on the raw core, followed by continued traffic; accepted => no panic and the bound holds " +
		"from then on; refused => nothing changed. Non-trivial = SetMtu during traffic or a fault in the fate vector.")
	c.ByUnit = true
	K := hx.Pick(c, 4, 5)
	// (i) size bound
	var grid []vfNamedPair
	for i, g := range vfPairGrid(false) {
		for _, mtu := range []int{0, 1500, 576, 200} {
			if c.Quick() && (i+mtu)%2 == 1 {
				continue
			}
			cf := g.cfg
			cf.Mtu = mtu
			cf.K, cf.Wire, cf.Owners = K, true, []string{"C10:"}
			if mtu != 0 && mtu < 1000 {
				for j := range cf.Writes {
					cf.Writes[j] = min(cf.Writes[j], 3*mtu)
				}
			}
			grid = append(grid, vfNamedPair{fmt.Sprintf("size/mtu=%d/%s", mtu, g.name), cf})
		}
	}
	per := (len(grid) + max(c.Of, 1) - 1) / max(c.Of, 1)
	left := (time.Until(c.Deadline) - 10*time.Second) / 2
	for _, g := range grid {
		c.UnitBudget = left / time.Duration(max(per, 1))
		c.Explore(g.name, vfPairParams(g.cfg, 0), 0, vfPairRun(g.cfg, 0, vfStdBody))
	}
	// (ii) SetMtu on the session at every position of a history
	classes := []struct {
		ciph   string
		ds, ps int
	}{{"", 0, 0}, {"aes-128", 0, 0}, {"aes-gcm", 0, 0}, {"", 2, 1}, {"aes-128", 3, 2}, {"aes-gcm", 1, 1}, {"aes-gcm", 2, 1}}
	per = (len(classes) + max(c.Of, 1) - 1) / max(c.Of, 1)
	for _, cl := range classes {
		cf := vfPairCfg{Cipher: cl.ciph, DS: cl.ds, PS: cl.ps, SDS: -1, Stream: true, NoDelay: [4]int{1, 10, 2, 1}, Writes: []int{1300, 1300, 700, 3100}, ReadBuf: 4096,
			Pool: vrt.PoolEager, Preempt: 1, Switch: 1, Select: 1, Wire: true, Owners: []string{"C10:"}, HorizonS: 60, K: 2, Fates: []int{vfDeliver, vfDrop}}
		overhead := 0
		if cl.ciph == "aes-gcm" {
			overhead = 12 + 16
		} else if cl.ciph != "" {
			overhead = 20
		}
		if cl.ds > 0 {
			overhead += 8
		}
		alpha := append([]int{}, vfMtuAlphabet...)
		alpha = append(alpha, 24+overhead, 25+overhead, 26+overhead, 100+overhead, 1000)
		// just below the datagram a 1300-byte write makes (a parity packet is as long as the longest packet of its group)
		big := 1300 + IKCP_OVERHEAD + overhead
		alpha = append(alpha, big-1, big-16, big-17)
		body := func(p *vfPair) {
			v := alpha[vrt.Choose(len(alpha), "mtu value")]
			npos := 5
			if cl.ds >= 2 {
				npos = 6 // an FEC group can only stay open with two or more data shards
			}
			pos := vrt.Choose(npos, "position")
			nsmall := 0
			openGroup := pos == 5 // like 4 without the idle gap: the FEC group of the large write may still be open at the MTU change
			if openGroup {
				pos = 4
			}
			if pos == 4 {
				nsmall = vrt.Choose(3, "small writes before the idle gap")
			}
			cur := IKCP_MTU_DEF
			setMtu := func() {
				p.client.mu.Lock()
				queued := p.client.kcp.WaitSnd()
				p.client.mu.Unlock()
				// datagrams the core produced before the call and that are still in the transmit pipeline were built
				// under the old MTU: they are exempt ("honoured from then on")
				pipeline := (p.client.chPostProcessing.Len() + 1) * (1 + cl.ps)
				if pos == 4 && queued == 0 {
					// 150 ms after the last write, everything acknowledged: the pipeline goroutine is idle, nothing is exempt — in
					// particular not the parity packet of a group that is still open, which the next write completes
					pipeline = p.client.chPostProcessing.Len() * (1 + cl.ps)
				}
				ok := false
				func() {
					defer func() {
						if r := recover(); r != nil {
							p.bad("C10:setmtu-panics", "SetMtu(%d) panicked: %v", v, r)
						}
					}()
					ok = p.client.SetMtu(v)
				}()
				p.mu.Lock()
				if ok {
					p.exempt = pipeline
					nv := min(v, 1500)
					if nv < cur && queued > 0 {
						p.shrunk = true
					}
					if nv < cur {
						p.noteShrink()
					}
					cur = nv
					p.mtuNow = nv
				}
				p.mu.Unlock()
				if ok && (v-overhead <= IKCP_OVERHEAD) {
					p.bad("C10:setmtu-accepts-unusable-value", "SetMtu(%d) accepted although only %d bytes remain for KCP after %d bytes of overhead", v, v-overhead, overhead)
				}
				if !ok && v-overhead > IKCP_OVERHEAD && !(queued > 0 && min(v, 1500) < cur) {
					// (refusing to shrink below segments that are already queued is "a value that cannot be honoured")
					p.bad("C10:setmtu-refuses-usable-value", "SetMtu(%d) refused although %d bytes remain for KCP and nothing larger is queued", v, min(v, 1500)-overhead)
				}
			}
			p.mtuNow = cur
			var wg vrt.WaitGroup
			var cw, sg []byte
			wg.Add(2)
			vrt.Go("app-client-writer", func() {
				defer wg.Done()
				if pos == 4 {
					// a history with an idle gap (> the FEC continuity limit), everything acknowledged, then the MTU change,
					// then a burst of small writes
					sizes := []int{1300}
					for i := 0; i < nsmall; i++ {
						sizes = append(sizes, 20)
					}
					p.writer(p.client, 0, sizes, &cw)
					if !openGroup {
						vrt.Sleep(700 * time.Millisecond)
						sizes = append(sizes, 21)
						p.writer2(p.client, 0, sizes, len(sizes)-1, &cw)
					}
					vrt.Sleep(150 * time.Millisecond)
					setMtu()
					n0 := len(sizes)
					for i := 0; i < 6; i++ {
						sizes = append(sizes, 30+i)
					}
					for i := n0; i < len(sizes); i++ {
						p.writer2(p.client, 0, sizes[:i+1], i, &cw)
						vrt.Sleep(time.Millisecond)
					}
					p.mu.Lock()
					p.altSizes = sizes
					p.mu.Unlock()
					return
				}
				if pos == 0 {
					setMtu()
				}
				p.writer(p.client, 0, cf.Writes[:2], &cw)
				if pos == 1 {
					setMtu() // data queued / in flight
				}
				p.writer2(p.client, 0, cf.Writes, 2, &cw)
				if pos == 3 {
					setMtu()
				}
			})
			if pos == 2 {
				wg.Add(1)
				vrt.Go("setmtu", func() {
					defer wg.Done()
					vrt.Sleep(7 * time.Millisecond) // first data in flight, acknowledgements on their way
					setMtu()
				})
			}
			vrt.Go("app-server", func() {
				defer wg.Done()
				s, err := p.listener.AcceptKCP()
				if err != nil {
					return
				}
				p.mu.Lock()
				p.server = s
				p.mu.Unlock()
				p.tune(s)
				if pos == 4 {
					// the write sequence is decided by the writer: read for a bounded virtual time and compare the prefix
					exp := func() []byte {
						p.mu.Lock()
						defer p.mu.Unlock()
						return vfExpected(0, p.altSizes)
					}
					buf := make([]byte, 4096)
					for {
						s.SetReadDeadline(vrt.Now().Add(1500 * time.Millisecond))
						n, err := s.Read(buf)
						if err != nil {
							break
						}
						sg = append(sg, buf[:n]...)
					}
					if e := exp(); len(e) > 0 && !bytes.Equal(sg, e) {
						p.bad("C01:stream-not-a-prefix", "after the MTU change the reader got %d bytes, %d were written", len(sg), len(e))
					}
					return
				}
				p.reader(s, 0, vfSum(cf.Writes), cf.Writes, &sg)
			})
			wg.Wait()
			p.teardown()
		}
		c.UnitBudget = max(left, time.Until(c.Deadline)-12*time.Second) / time.Duration(max(per, 1)) // what part (i) left unused is available here
		pr := vfPairParams(cf, 0)
		pr["mtu_alphabet"], pr["positions"] = alpha, []string{"before traffic", "after two writes (queued / in flight)", "7ms into the transfer (concurrently)", "after all writes",
			"after a large write, 0-2 small writes, a 700ms idle gap, one more write, everything acknowledged; followed by a burst of small writes",
			"after a large write and 0-2 small writes, everything acknowledged, the FEC group possibly still open; followed by a burst of small writes"}
		c.Explore(fmt.Sprintf("setmtu-session/cipher=%s/fec=%d,%d", cl.ciph, cl.ds, cl.ps), pr, 0, vfPairRun(cf, 0, body))
	}
	// raw core: SetMtu for any int, at every position of a core-pair history
	if !c.Skip("setmtu-core") {
		hx.NoCache = true
		run := func(e *explore.Exec) explore.Verdict {
			var s *vfSim
			var v, pos int
			var accepted bool
			out := hx.RunVrt(e, vrt.Config{TimerEarlyCost: -1, Horizon: 24 * time.Hour}, func() {
				vfResetGlobals()
				// (2^31-1 is left out for the raw core: it is accepted and allocates a 6 GB staging buffer, which is
				// an unrecoverable out-of-memory abort under the worker's memory cap rather than an observable verdict)
				alpha := append(append([]int{}, vfMtuAlphabet[:len(vfMtuAlphabet)-1]...), 26, 100, 1000, 2000, 1524, 1525, 4272, 4273, 4500, 6000, 20000)
				v = alpha[vrt.Choose(len(alpha), "mtu value")]
				pos = vrt.Choose(3, "position")
				wnd := []int{2, 8}[vrt.Choose(2, "send window")] // 8: several full-size segments leave in one flush
				cf := vfSimCfg{Mode: "session", Stream: true, SndWnd: [2]int{wnd, wnd}, RcvWnd: [2]int{8, 8}, NoDelay: [4]int{1, 10, 2, 1}, Delay: 5, HorizonMs: 60000, PauseAfter: -1,
					K: 3, Fates: []int{vfDeliver, vfDrop}}
				cf.Writes[0] = []int{1300, 600, 1300, 1300, 1900, 100}
				if v >= 1000 {
					cf.Writes[0] = append(cf.Writes[0], 7000, 3000) // several full-size segments per flush (with a tiny mss this would be 10^4 segments)
				}
				cf.Trace = hx.Tracing
				s = vfNewSim(cf)
				s.owners = []string{"C10:", "C01:", "C02:"}
				s.mtuAt, s.mtuVal = []int{0, 2, 9}[pos], v
				s.run()
				accepted = s.mtuAccepted
			})
			if s != nil {
				accepted = s.mtuAccepted
			}
			vd := explore.Verdict{Outcome: fmt.Sprintf("SetMtu(%d) at position %d accepted=%v", v, pos, accepted), NonTriv: pos > 0}
			vd.StateHash = explore.HashString(vd.Outcome)
			switch {
			case out.Status == vrt.Panicked:
				cls := "core-panic-after-accepted-mtu"
				switch {
				case v > 1500 && accepted:
					cls = "core-mtu-above-pool-buffer"
				case accepted && pos > 0 && v < 1400:
					cls = "core-mtu-shrink-with-data-queued"
				}
				vd.Violation = fmt.Sprintf("raw KCP.SetMtu(%d) at position %d was accepted and the core then panicked: %s\n%s", v, pos, out.Fail, out.Stack)
				vd.Signature = "C10:" + cls + ":" + vfPanicSite(out.Stack)
			case s != nil && s.fail != "":
				vd.Violation, vd.Signature = fmt.Sprintf("raw KCP.SetMtu(%d) at position %d (accepted=%v): %s", v, pos, accepted, s.fail), s.sig
				if accepted && pos > 0 && v < 1400 {
					vd.Signature += ":after-mtu-shrink-with-data-queued"
				}
			}
			return vd
		}
		c.ByUnit = false
		c.UnitBudget = 10 * time.Second
		c.Explore("setmtu-core", map[string]any{"positions": []string{"before traffic", "after 2 calls", "after 9 calls"}}, 0, run)
	}
	// out-of-band packets count too: payload lengths around GetOOBMaxSize() x MTU x overhead class, sent during traffic
	c.ByUnit = true
	for _, cl := range []struct {
		ciph string
		mtu  int
	}{{"", 0}, {"", 1500}, {"aes-128", 576}, {"aes-gcm", 1500}, {"aes-gcm", 0}} {
		cl := cl
		cf := vfPairCfg{Cipher: cl.ciph, DS: 2, PS: 1, SDS: -1, Stream: true, NoDelay: [4]int{1, 10, 2, 1}, Mtu: cl.mtu, Writes: []int{300, 1200, 50}, WritesBack: []int{100}, ReadBuf: 4096,
			Pool: vrt.PoolEager, Preempt: 1, Switch: 1, Select: 1, Wire: true, Owners: []string{"C10:"}, HorizonS: 30}
		if cl.mtu != 0 && cl.mtu < 1000 {
			cf.Writes = []int{300, 500, 50}
		}
		body := func(p *vfPair) {
			max := p.client.GetOOBMaxSize()
			d := vrt.Choose(12, "OOB payload length relative to the maximum") - 3 // max-3 .. max+8
			when := vrt.Choose(2, "before / during traffic")
			var wg vrt.WaitGroup
			wg.Add(1)
			send := func() {
				if max+d < 0 {
					return
				}
				err := p.client.SendOOB(vfPayload(9, max+d, 0))
				if d > 0 && err == nil {
					p.bad("C10:oob-above-the-limit-accepted", "SendOOB of GetOOBMaxSize()+%d = %d bytes was accepted (session MTU %d)", d, max+d, cl.mtu)
				}
				if d <= 0 && err != nil {
					p.bad("C10:oob-within-the-limit-refused", "SendOOB of %d bytes (limit %d) failed: %v", max+d, max, err)
				}
			}
			if when == 0 {
				send()
			}
			vrt.Go("traffic", func() { defer wg.Done(); p.traffic() })
			if when == 1 {
				vrt.Sleep(4 * time.Millisecond)
				send()
			}
			wg.Wait()
			vrt.Idle(100 * time.Millisecond)
			p.teardown()
		}
		c.UnitBudget = 10 * time.Second
		pr := vfPairParams(cf, 0)
		pr["oob_lengths"] = "GetOOBMaxSize()-3 .. +8"
		c.Explore(fmt.Sprintf("oob/mtu=%d/cipher=%s", cl.mtu, cl.ciph), pr, 0, vfPairRun(cf, 0, body))
	}
	c.ByUnit = false
	// the core never hands its output callback more than its MTU nor an empty packet, whatever a peer sends
	vfAdversarialBFS(c, "C10:", 4, false)
}

func init() {
	hx.Register("C09", vfC09)
	hx.Register("C10", vfC10)
	hx.Register("C15", vfC15)
}
