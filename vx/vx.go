// Package vx is the type-directed source transformer: it rewrites the non-test sources of package kcp
// (read from the current working tree) so that every goroutine, channel operation, select, timer,
// clock read, mutex and atomic goes through the virtual runtime verif/vrt. The output is a scratch
// directory plus a `go build -overlay` file; the repository itself is never written.
//
// Every rewrite is local and structural (see DESIGN.md 3.1). Anything the transformer does not
// recognise is a hard tooling error, never a verdict.
package vx

import (
	"bytes"
	"encoding/json"
	"fmt"
	"go/ast"
	"go/build/constraint"
	"go/importer"
	"go/parser"
	"go/printer"
	"go/token"
	"go/types"
	"io"
	"os"
	"os/exec"
	"path/filepath"
	"sort"
	"strconv"
	"strings"

	"golang.org/x/tools/go/ast/astutil"
)

const (
	vrtName = "vrt__"
	vrtPath = "verif/vrt"
)

var importMap = map[string]string{
	"time":        "verif/vrt/vtime",
	"sync":        "verif/vrt/vsync",
	"sync/atomic": "verif/vrt/vatomic",
}

// Census counts what was rewritten.
type Census struct {
	Files, Go, Select, Recv, Send, MakeChan, ChanType, Close, LenCap, MapRange, ChanRange, Imports, Seams int
}

// Result of a transformation.
type Result struct {
	Overlay string
	Census  Census
	Files   []string
}

type listPkg struct {
	ImportPath string
	Export     string
	GoFiles    []string
	Dir        string
	DepOnly    bool
	Error      *struct{ Err string }
}

// Transform rewrites the package in repoDir into outDir and writes outDir/overlay.json, which also maps
// every *.go file of inpkgDir to repoDir/zz_verif_<name>. goBin is the go tool to use.
func Transform(goBin, repoDir, outDir, inpkgDir string, extra map[string]string) (*Result, error) {
	cmd := exec.Command(goBin, "list", "-export", "-deps", "-json=ImportPath,Export,GoFiles,Dir,DepOnly,Error", ".")
	cmd.Dir = repoDir
	var stderr bytes.Buffer
	cmd.Stderr = &stderr
	out, err := cmd.Output()
	if err != nil {
		return nil, fmt.Errorf("go list: %v\n%s", err, stderr.String())
	}
	exports := map[string]string{}
	var root *listPkg
	dec := json.NewDecoder(bytes.NewReader(out))
	for dec.More() {
		var p listPkg
		if err := dec.Decode(&p); err != nil {
			return nil, err
		}
		if p.Error != nil {
			return nil, fmt.Errorf("go list: %s: %s", p.ImportPath, p.Error.Err)
		}
		if p.Export != "" {
			exports[p.ImportPath] = p.Export
		}
		if !p.DepOnly {
			pp := p
			root = &pp
		}
	}
	if root == nil {
		return nil, fmt.Errorf("go list: no root package")
	}
	fset := token.NewFileSet()
	var files []*ast.File
	var names []string
	srcs := map[string][]byte{}
	for _, f := range root.GoFiles {
		path := filepath.Join(root.Dir, f)
		src, err := os.ReadFile(path)
		if err != nil {
			return nil, err
		}
		af, err := parser.ParseFile(fset, path, src, parser.ParseComments|parser.SkipObjectResolution)
		if err != nil {
			return nil, err
		}
		files = append(files, af)
		names = append(names, f)
		srcs[f] = src
	}
	imp := importer.ForCompiler(fset, "gc", func(path string) (io.ReadCloser, error) {
		e, ok := exports[path]
		if !ok {
			return nil, fmt.Errorf("no export data for %q", path)
		}
		return os.Open(e)
	})
	info := &types.Info{Types: map[ast.Expr]types.TypeAndValue{}, Uses: map[*ast.Ident]types.Object{}, Defs: map[*ast.Ident]types.Object{}}
	conf := types.Config{Importer: imp.(types.ImporterFrom)}
	if _, err := conf.Check(root.ImportPath, fset, files, info); err != nil {
		return nil, fmt.Errorf("type check: %v", err)
	}
	res := &Result{}
	overlay := map[string]string{}
	for i, af := range files {
		t := &xf{fset: fset, info: info, file: af, fname: names[i]}
		if inpkgDir != "" {
			res.Census.Seams += injectSeams(af)
		}
		if err := t.run(); err != nil {
			return nil, fmt.Errorf("%s: %v", names[i], err)
		}
		var buf bytes.Buffer
		if err := t.print(&buf, srcs[names[i]], filepath.Join(root.Dir, names[i])); err != nil {
			return nil, fmt.Errorf("%s: print: %v", names[i], err)
		}
		if err := escapes(buf.Bytes(), names[i]); err != nil {
			return nil, err
		}
		dst := filepath.Join(outDir, names[i])
		if err := os.WriteFile(dst, buf.Bytes(), 0o644); err != nil {
			return nil, err
		}
		overlay[filepath.Join(root.Dir, names[i])] = dst
		res.Files = append(res.Files, dst)
		c := &res.Census
		c.Files++
		c.Go += t.c.Go
		c.Select += t.c.Select
		c.Recv += t.c.Recv
		c.Send += t.c.Send
		c.MakeChan += t.c.MakeChan
		c.ChanType += t.c.ChanType
		c.Close += t.c.Close
		c.LenCap += t.c.LenCap
		c.MapRange += t.c.MapRange
		c.ChanRange += t.c.ChanRange
		c.Imports += t.c.Imports
	}
	if inpkgDir != "" {
		ents, err := os.ReadDir(inpkgDir)
		if err != nil {
			return nil, err
		}
		for _, e := range ents {
			if strings.HasSuffix(e.Name(), ".go") {
				overlay[filepath.Join(root.Dir, "zz_verif_"+e.Name())] = filepath.Join(inpkgDir, e.Name())
			}
		}
	}
	for k, v := range extra {
		overlay[k] = v
	}
	ob, _ := json.MarshalIndent(map[string]any{"Replace": overlay}, "", " ")
	res.Overlay = filepath.Join(outDir, "overlay.json")
	if err := os.WriteFile(res.Overlay, ob, 0o644); err != nil {
		return nil, err
	}
	return res, nil
}

// injectSeams gives the harness a way in where the library picks an operating-system facility by itself:
// newBatchConn(conn) (recvmmsg/sendmmsg wrapper, chosen when conn is a real UDP socket) first asks the harness
// (vfBatchConnHook, defined in inpkg) for a virtual batch connection. In the transformed copy only.
func injectSeams(af *ast.File) int {
	n := 0
	for _, d := range af.Decls {
		fd, ok := d.(*ast.FuncDecl)
		if !ok || fd.Recv != nil || fd.Body == nil || fd.Name.Name != "newBatchConn" {
			continue
		}
		ps := fd.Type.Params
		if ps == nil || len(ps.List) != 1 || len(ps.List[0].Names) != 1 || fd.Type.Results == nil || len(fd.Type.Results.List) != 1 {
			continue
		}
		hook := &ast.IfStmt{
			Init: &ast.AssignStmt{Lhs: []ast.Expr{id("vfb__")}, Tok: token.DEFINE, Rhs: []ast.Expr{call(id("vfBatchConnHook"), id(ps.List[0].Names[0].Name))}},
			Cond: &ast.BinaryExpr{X: id("vfb__"), Op: token.NEQ, Y: id("nil")},
			Body: &ast.BlockStmt{List: []ast.Stmt{&ast.ReturnStmt{Results: []ast.Expr{id("vfb__")}}}},
		}
		fd.Body.List = append([]ast.Stmt{hook}, fd.Body.List...)
		n++
	}
	return n
}

// escapes is the post-pass: nothing may escape control.
func escapes(src []byte, name string) error {
	fset := token.NewFileSet()
	af, err := parser.ParseFile(fset, name, src, parser.SkipObjectResolution)
	if err != nil {
		return fmt.Errorf("%s: transformed file does not parse: %v", name, err)
	}
	var bad []string
	for _, im := range af.Imports {
		p, _ := strconv.Unquote(im.Path.Value)
		if _, ok := importMap[p]; ok {
			bad = append(bad, "import "+p)
		}
	}
	ast.Inspect(af, func(n ast.Node) bool {
		switch x := n.(type) {
		case *ast.ChanType:
			bad = append(bad, "chan type")
		case *ast.GoStmt:
			bad = append(bad, "go statement")
		case *ast.SelectStmt:
			bad = append(bad, "select")
		case *ast.SendStmt:
			bad = append(bad, "send")
		case *ast.UnaryExpr:
			if x.Op == token.ARROW {
				bad = append(bad, "receive")
			}
		}
		return true
	})
	if len(bad) > 0 {
		return fmt.Errorf("%s: constructs escaped the transformer: %v", name, bad)
	}
	return nil
}

type xf struct {
	fset    *token.FileSet
	info    *types.Info
	file    *ast.File
	fname   string
	c       Census
	needVrt bool
	ctr     int
	err     error
	made    map[*ast.CallExpr]bool // make(chan ...) calls
	recvs   map[*ast.CallExpr]bool // generated x.Recv() calls
	inComm  map[ast.Node]bool      // receive/send nodes that are select communications (handled by the select rewrite)
}

func (t *xf) fail(n ast.Node, format string, args ...any) {
	if t.err == nil {
		t.err = fmt.Errorf("%s: %s", t.fset.Position(n.Pos()), fmt.Sprintf(format, args...))
	}
}

func id(s string) *ast.Ident { return ast.NewIdent(s) }

func sel(x ast.Expr, name string) *ast.SelectorExpr { return &ast.SelectorExpr{X: x, Sel: id(name)} }

func call(fun ast.Expr, args ...ast.Expr) *ast.CallExpr { return &ast.CallExpr{Fun: fun, Args: args} }

func (t *xf) vrt(name string) ast.Expr {
	t.needVrt = true
	return sel(id(vrtName), name)
}

func (t *xf) tmp(prefix string) string {
	t.ctr++
	return fmt.Sprintf("%s%d__", prefix, t.ctr)
}

func (t *xf) isChan(e ast.Expr) bool {
	tv, ok := t.info.Types[e]
	if !ok || tv.Type == nil {
		return false
	}
	_, ok = tv.Type.Underlying().(*types.Chan)
	return ok
}

func (t *xf) isBuiltin(e ast.Expr, name string) bool {
	idn, ok := e.(*ast.Ident)
	if !ok || idn.Name != name {
		return false
	}
	_, ok = t.info.Uses[idn].(*types.Builtin)
	return ok
}

func (t *xf) run() error {
	t.made = map[*ast.CallExpr]bool{}
	t.recvs = map[*ast.CallExpr]bool{}
	t.inComm = map[ast.Node]bool{}
	// imports
	for _, im := range t.file.Imports {
		p, _ := strconv.Unquote(im.Path.Value)
		if np, ok := importMap[p]; ok {
			if im.Name == nil {
				base := p
				if i := strings.LastIndex(p, "/"); i >= 0 {
					base = p[i+1:]
				}
				im.Name = id(base)
			}
			im.Path.Value = strconv.Quote(np)
			im.EndPos = 0
			t.c.Imports++
		}
	}
	pre := func(c *astutil.Cursor) bool {
		switch n := c.Node().(type) {
		case *ast.CallExpr:
			if t.isBuiltin(n.Fun, "make") && len(n.Args) > 0 {
				if _, ok := n.Args[0].(*ast.ChanType); ok {
					t.made[n] = true
				}
			}
			if (t.isBuiltin(n.Fun, "len") || t.isBuiltin(n.Fun, "cap")) && len(n.Args) == 1 && t.isChan(n.Args[0]) {
				n.Fun = sel(n.Args[0], map[string]string{"len": "Len", "cap": "Cap"}[n.Fun.(*ast.Ident).Name])
				// the argument becomes the receiver; children are rewritten through n.Fun
				n.Args = nil
				t.c.LenCap++
			} else if t.isBuiltin(n.Fun, "close") && len(n.Args) == 1 {
				n.Fun = sel(n.Args[0], "Close")
				n.Args = nil
				t.c.Close++
			}
		case *ast.SelectStmt:
			for _, cl := range n.Body.List {
				cc := cl.(*ast.CommClause)
				switch s := cc.Comm.(type) {
				case nil:
				case *ast.SendStmt:
					t.inComm[s] = true
				case *ast.ExprStmt:
					t.inComm[unparen(s.X)] = true
				case *ast.AssignStmt:
					t.inComm[unparen(s.Rhs[0])] = true
				}
			}
		case *ast.LabeledStmt:
			switch n.Stmt.(type) {
			case *ast.SelectStmt:
				t.fail(n, "labelled select is not supported")
			case *ast.RangeStmt:
				r := n.Stmt.(*ast.RangeStmt)
				if tv, ok := t.info.Types[r.X]; ok {
					switch tv.Type.Underlying().(type) {
					case *types.Map, *types.Chan:
						t.fail(n, "labelled range over map/channel is not supported")
					}
				}
			}
		}
		return true
	}
	post := func(c *astutil.Cursor) bool {
		switch n := c.Node().(type) {
		case *ast.ChanType:
			t.c.ChanType++
			c.Replace(&ast.StarExpr{X: &ast.IndexExpr{X: t.vrt("Chan"), Index: n.Value}})
		case *ast.CallExpr:
			if t.made[n] {
				st, ok := n.Args[0].(*ast.StarExpr)
				if !ok {
					t.fail(n, "make(chan): element type lost")
					return true
				}
				elem := st.X.(*ast.IndexExpr).Index
				size := ast.Expr(&ast.BasicLit{Kind: token.INT, Value: "0"})
				if len(n.Args) > 1 {
					size = n.Args[1]
				}
				t.c.MakeChan++
				c.Replace(call(&ast.IndexExpr{X: t.vrt("MakeChan"), Index: elem}, size))
			}
		case *ast.SendStmt:
			if t.inComm[n] {
				return true
			}
			t.c.Send++
			c.Replace(&ast.ExprStmt{X: call(sel(n.Chan, "Send"), n.Value)})
		case *ast.UnaryExpr:
			if n.Op != token.ARROW || t.inComm[n] {
				return true
			}
			t.c.Recv++
			ce := call(sel(n.X, "Recv"))
			t.recvs[ce] = true
			c.Replace(ce)
		case *ast.AssignStmt:
			if len(n.Lhs) == 2 && len(n.Rhs) == 1 {
				if ce, ok := unparen(n.Rhs[0]).(*ast.CallExpr); ok && t.recvs[ce] {
					ce.Fun.(*ast.SelectorExpr).Sel = id("Recv2")
				}
			}
		case *ast.ValueSpec:
			if len(n.Names) == 2 && len(n.Values) == 1 {
				if ce, ok := unparen(n.Values[0]).(*ast.CallExpr); ok && t.recvs[ce] {
					ce.Fun.(*ast.SelectorExpr).Sel = id("Recv2")
				}
			}
		case *ast.GoStmt:
			c.Replace(t.goStmt(n))
		case *ast.SelectStmt:
			c.Replace(t.selectStmt(n))
		case *ast.RangeStmt:
			if tv, ok := t.info.Types[n.X]; ok && tv.Type != nil {
				switch u := tv.Type.Underlying().(type) {
				case *types.Map:
					c.Replace(t.mapRange(n, u))
				case *types.Chan:
					c.Replace(t.chanRange(n))
				}
			}
		}
		return true
	}
	astutil.Apply(t.file, pre, post)
	if t.err != nil {
		return t.err
	}
	return nil
}

func unparen(e ast.Expr) ast.Expr {
	for {
		p, ok := e.(*ast.ParenExpr)
		if !ok {
			return e
		}
		e = p.X
	}
}

func (t *xf) exprString(e ast.Expr) string {
	var b bytes.Buffer
	printer.Fprint(&b, t.fset, e)
	s := b.String()
	if i := strings.IndexAny(s, "\n{"); i >= 0 {
		s = s[:i]
	}
	return s
}

// go f(a, b)  =>  { f__ := f; a0__ := a; a1__ := b; vrt.Go("f@file:line", func() { f__(a0__, a1__) }) }
func (t *xf) goStmt(n *ast.GoStmt) ast.Stmt {
	t.c.Go++
	pos := t.fset.Position(n.Pos())
	name := fmt.Sprintf("%s@%s:%d", t.exprString(n.Call.Fun), t.fname, pos.Line)
	var stmts []ast.Stmt
	fn := t.tmp("gof")
	stmts = append(stmts, &ast.AssignStmt{Lhs: []ast.Expr{id(fn)}, Tok: token.DEFINE, Rhs: []ast.Expr{n.Call.Fun}})
	var args []ast.Expr
	for _, a := range n.Call.Args {
		an := t.tmp("goa")
		stmts = append(stmts, &ast.AssignStmt{Lhs: []ast.Expr{id(an)}, Tok: token.DEFINE, Rhs: []ast.Expr{a}})
		args = append(args, id(an))
	}
	inner := &ast.CallExpr{Fun: id(fn), Args: args}
	if n.Call.Ellipsis.IsValid() {
		inner.Ellipsis = 1
	}
	lit := &ast.FuncLit{Type: &ast.FuncType{Params: &ast.FieldList{}}, Body: &ast.BlockStmt{List: []ast.Stmt{&ast.ExprStmt{X: inner}}}}
	stmts = append(stmts, &ast.ExprStmt{X: call(t.vrt("Go"), &ast.BasicLit{Kind: token.STRING, Value: strconv.Quote(name)}, lit)})
	return &ast.BlockStmt{List: stmts}
}

func (t *xf) selectStmt(n *ast.SelectStmt) ast.Stmt {
	t.c.Select++
	var pre []ast.Stmt
	var cases []ast.Expr
	var clauses []ast.Stmt
	hasDefault := false
	idx := 0
	for _, cl := range n.Body.List {
		cc := cl.(*ast.CommClause)
		if cc.Comm == nil {
			hasDefault = true
			clauses = append(clauses, &ast.CaseClause{List: nil, Body: cc.Body})
			continue
		}
		var body []ast.Stmt
		switch s := cc.Comm.(type) {
		case *ast.SendStmt:
			t.c.Send++
			cn, vn := t.tmp("selc"), t.tmp("selv")
			pre = append(pre, &ast.AssignStmt{Lhs: []ast.Expr{id(cn)}, Tok: token.DEFINE, Rhs: []ast.Expr{s.Chan}})
			pre = append(pre, &ast.AssignStmt{Lhs: []ast.Expr{id(vn)}, Tok: token.DEFINE, Rhs: []ast.Expr{s.Value}})
			cases = append(cases, call(sel(id(cn), "SendCase"), id(vn)))
		case *ast.ExprStmt: // case <-ch:
			t.c.Recv++
			u := unparen(s.X).(*ast.UnaryExpr)
			cn := t.tmp("selc")
			pre = append(pre, &ast.AssignStmt{Lhs: []ast.Expr{id(cn)}, Tok: token.DEFINE, Rhs: []ast.Expr{u.X}})
			cases = append(cases, call(sel(id(cn), "RecvCase"), id("nil"), id("nil")))
		case *ast.AssignStmt: // case v := <-ch / v, ok := <-ch / x = <-ch
			t.c.Recv++
			u := unparen(s.Rhs[0]).(*ast.UnaryExpr)
			cn, tn, on := t.tmp("selc"), t.tmp("selt"), t.tmp("selo")
			pre = append(pre, &ast.AssignStmt{Lhs: []ast.Expr{id(cn)}, Tok: token.DEFINE, Rhs: []ast.Expr{u.X}})
			pre = append(pre, &ast.AssignStmt{Lhs: []ast.Expr{id(tn)}, Tok: token.DEFINE, Rhs: []ast.Expr{call(sel(id(cn), "Zero"))}})
			okArg := ast.Expr(id("nil"))
			rhs := []ast.Expr{id(tn)}
			if len(s.Lhs) == 2 {
				pre = append(pre, &ast.DeclStmt{Decl: &ast.GenDecl{Tok: token.VAR, Specs: []ast.Spec{&ast.ValueSpec{Names: []*ast.Ident{id(on)}, Type: id("bool")}}}})
				okArg = &ast.UnaryExpr{Op: token.AND, X: id(on)}
				rhs = append(rhs, id(on))
			}
			cases = append(cases, call(sel(id(cn), "RecvCase"), &ast.UnaryExpr{Op: token.AND, X: id(tn)}, okArg))
			body = append(body, &ast.AssignStmt{Lhs: s.Lhs, Tok: s.Tok, Rhs: rhs})
		default:
			t.fail(cc, "unsupported select communication")
		}
		body = append(body, cc.Body...)
		clauses = append(clauses, &ast.CaseClause{List: []ast.Expr{&ast.BasicLit{Kind: token.INT, Value: strconv.Itoa(idx)}}, Body: body})
		idx++
	}
	if !hasDefault {
		clauses = append(clauses, &ast.CaseClause{List: nil, Body: []ast.Stmt{
			&ast.ExprStmt{X: call(id("panic"), &ast.BasicLit{Kind: token.STRING, Value: strconv.Quote("vrt: impossible select result")})}}})
	}
	hd := "false"
	if hasDefault {
		hd = "true"
	}
	args := append([]ast.Expr{id(hd)}, cases...)
	sw := &ast.SwitchStmt{Tag: call(t.vrt("Select"), args...), Body: &ast.BlockStmt{List: clauses}}
	return &ast.BlockStmt{List: append(pre, sw)}
}

func ordered(k types.Type) bool {
	b, ok := k.Underlying().(*types.Basic)
	return ok && b.Info()&(types.IsInteger|types.IsFloat|types.IsString) != 0
}

// for k, v := range m  =>  { m__ := m; for _, k__ := range vrt.SortedKeys(m__) { v__, ok__ := m__[k__]; if !ok__ { continue }; k, v := k__, v__; body } }
func (t *xf) mapRange(n *ast.RangeStmt, m *types.Map) ast.Stmt {
	t.c.MapRange++
	if !ordered(m.Key()) {
		t.fail(n, "range over a map whose key type is not ordered: iteration order cannot be made deterministic")
		return n
	}
	mn, kn, vn, on := t.tmp("rngm"), t.tmp("rngk"), t.tmp("rngv"), t.tmp("rngo")
	var body []ast.Stmt
	body = append(body, &ast.AssignStmt{Lhs: []ast.Expr{id(vn), id(on)}, Tok: token.DEFINE, Rhs: []ast.Expr{&ast.IndexExpr{X: id(mn), Index: id(kn)}}})
	body = append(body, &ast.IfStmt{Cond: &ast.UnaryExpr{Op: token.NOT, X: id(on)}, Body: &ast.BlockStmt{List: []ast.Stmt{&ast.BranchStmt{Tok: token.CONTINUE}}}})
	body = append(body, &ast.AssignStmt{Lhs: []ast.Expr{id("_")}, Tok: token.ASSIGN, Rhs: []ast.Expr{id(vn)}})
	var lhs, rhs []ast.Expr
	if n.Key != nil {
		lhs, rhs = append(lhs, n.Key), append(rhs, id(kn))
	}
	if n.Value != nil {
		if n.Key == nil {
			lhs, rhs = append(lhs, id("_")), append(rhs, id(kn))
		}
		lhs, rhs = append(lhs, n.Value), append(rhs, id(vn))
	}
	if len(lhs) > 0 {
		allBlank := true
		for _, l := range lhs {
			if i, ok := l.(*ast.Ident); !ok || i.Name != "_" {
				allBlank = false
			}
		}
		tok := n.Tok
		if allBlank {
			tok = token.ASSIGN
		}
		body = append(body, &ast.AssignStmt{Lhs: lhs, Tok: tok, Rhs: rhs})
	}
	body = append(body, n.Body.List...)
	loop := &ast.RangeStmt{Key: id("_"), Value: id(kn), Tok: token.DEFINE, X: call(t.vrt("SortedKeys"), id(mn)), Body: &ast.BlockStmt{List: body}}
	return &ast.BlockStmt{List: []ast.Stmt{
		&ast.AssignStmt{Lhs: []ast.Expr{id(mn)}, Tok: token.DEFINE, Rhs: []ast.Expr{n.X}},
		loop,
	}}
}

// for v := range ch  =>  { c__ := ch; for { v__, ok__ := c__.Recv2(); if !ok__ { break }; v := v__; body } }
func (t *xf) chanRange(n *ast.RangeStmt) ast.Stmt {
	t.c.ChanRange++
	cn, vn, on := t.tmp("rngc"), t.tmp("rngv"), t.tmp("rngo")
	var body []ast.Stmt
	body = append(body, &ast.AssignStmt{Lhs: []ast.Expr{id(vn), id(on)}, Tok: token.DEFINE, Rhs: []ast.Expr{call(sel(id(cn), "Recv2"))}})
	body = append(body, &ast.IfStmt{Cond: &ast.UnaryExpr{Op: token.NOT, X: id(on)}, Body: &ast.BlockStmt{List: []ast.Stmt{&ast.BranchStmt{Tok: token.BREAK}}}})
	body = append(body, &ast.AssignStmt{Lhs: []ast.Expr{id("_")}, Tok: token.ASSIGN, Rhs: []ast.Expr{id(vn)}})
	if n.Key != nil {
		if i, ok := n.Key.(*ast.Ident); !ok || i.Name != "_" {
			body = append(body, &ast.AssignStmt{Lhs: []ast.Expr{n.Key}, Tok: n.Tok, Rhs: []ast.Expr{id(vn)}})
		}
	}
	body = append(body, n.Body.List...)
	return &ast.BlockStmt{List: []ast.Stmt{
		&ast.AssignStmt{Lhs: []ast.Expr{id(cn)}, Tok: token.DEFINE, Rhs: []ast.Expr{n.X}},
		&ast.ForStmt{Body: &ast.BlockStmt{List: body}},
	}}
}

// print writes the transformed file: build constraint, package clause, imports, then every declaration
// preceded by a //line directive pointing at the original source.
func (t *xf) print(w *bytes.Buffer, src []byte, origPath string) error {
	for _, line := range strings.Split(string(src), "\n") {
		if constraint.IsGoBuild(strings.TrimSpace(line)) {
			w.WriteString(strings.TrimSpace(line) + "\n\n")
			break
		}
		if strings.HasPrefix(strings.TrimSpace(line), "package ") {
			break
		}
	}
	fmt.Fprintf(w, "// Code generated by verif/vx from %s; DO NOT EDIT.\n\npackage %s\n\n", origPath, t.file.Name.Name)
	// imports
	var specs []string
	for _, im := range t.file.Imports {
		s := im.Path.Value
		if im.Name != nil {
			s = im.Name.Name + " " + s
		}
		specs = append(specs, s)
	}
	if t.needVrt {
		specs = append(specs, vrtName+" "+strconv.Quote(vrtPath))
	}
	sort.Strings(specs)
	if len(specs) > 0 {
		w.WriteString("import (\n")
		for _, s := range specs {
			w.WriteString("\t" + s + "\n")
		}
		w.WriteString(")\n\n")
	}
	// strip comments: go/printer misplaces free-floating ones after node replacement
	t.file.Comments = nil
	cfg := printer.Config{Mode: printer.UseSpaces | printer.TabIndent, Tabwidth: 8}
	for _, d := range t.file.Decls {
		if gd, ok := d.(*ast.GenDecl); ok && gd.Tok == token.IMPORT {
			continue
		}
		stripDocs(d)
		pos := t.fset.Position(d.Pos())
		fmt.Fprintf(w, "//line %s:%d\n", origPath, pos.Line)
		if err := cfg.Fprint(w, t.fset, d); err != nil {
			return err
		}
		w.WriteString("\n\n")
	}
	return nil
}

func stripDocs(d ast.Decl) {
	ast.Inspect(d, func(n ast.Node) bool {
		switch x := n.(type) {
		case *ast.FuncDecl:
			x.Doc = nil
		case *ast.GenDecl:
			x.Doc = nil
		case *ast.Field:
			x.Doc, x.Comment = nil, nil
		case *ast.ValueSpec:
			x.Doc, x.Comment = nil, nil
		case *ast.TypeSpec:
			x.Doc, x.Comment = nil, nil
		case *ast.ImportSpec:
			x.Doc, x.Comment = nil, nil
		}
		return true
	})
}
